#!/bin/sh
# Official confirmation runs: apply each listed seeded change to /repo, run the property's quick check, undo.
cd "$(dirname "$0")/.."
for sid in "$@"; do
  python3 lib/seedtool.py official "$sid" quick
done
