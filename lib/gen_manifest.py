#!/usr/bin/env python3
"""Regenerates /verif/MANIFEST.json from lib/props.py (run after editing props)."""
import json, os, subprocess, sys
ROOT = os.path.dirname(os.path.dirname(os.path.abspath(__file__)))
sys.path.insert(0, os.path.join(ROOT, "lib"))
from props import PROPS, MANIFEST_TEXT, NOT_APPLICABLE

hook_commits = [l.split()[0] for l in subprocess.run(
    ["git", "-C", "/repo", "log", "--format=%H %s"], capture_output=True, text=True).stdout.splitlines()
    if l.split(" ", 1)[1].startswith("verif hooks")]

checks = []
for pid in sorted(PROPS):
    P = PROPS[pid]
    T = MANIFEST_TEXT[pid]
    checks.append(dict(
        property_id=pid,
        quick_cmd=f"./check {pid} quick",
        thorough_cmd=f"./check {pid} thorough",
        evidence_file=f"/verif/evidence/{pid}.json",
        replay_cmd_template=f"./check {pid} --replay {{path}}",
        engine=T.get("engine", "vmon"),
        level_claimed=dict(category="exploration", text=T["level_text"], design_ref=T["design_ref"]),
        level_note=T["level_note"],
        technique=T["technique"],
    ))
m = dict(
    version=1,
    setup_cmd="./setup.sh",
    hooks=dict(
        guard="recmo_uint_verif",
        enable='RUSTFLAGS="--cfg recmo_uint_verif" (set by ./check for every lane; cargo rebuilds ruint from /repo\'s working tree as a path dependency of /verif/harness)',
        baseline_off_cmd="cd /repo && cargo test --workspace --no-fail-fast --offline",
        source_commits=hook_commits,
        add_only=True,
    ),
    engines=[
        dict(name="vmon", path="/verif/harness", serves_properties=sorted(p for p in PROPS if MANIFEST_TEXT[p].get("engine", "vmon") == "vmon"),
             kind_free_text="Rust monitor core + one workload binary per property: runs the real ruint code under catch_unwind on hostile inputs, judges every outcome with an independent BigUint/reference-codec oracle, checks the canonical-form invariant on every produced value, attributes coverage-hook hits to calls; lanes = debug-assertion build, release build, Miri, AddressSanitizer, valgrind memcheck"),
        dict(name="probes", path="/verif/lib/probes.py", serves_properties=sorted(p for p in PROPS if MANIFEST_TEXT[p].get("engine") == "probes" or MANIFEST_TEXT[p].get("also_probes")),
             kind_free_text="generated probe crates compiled against /repo's working tree; compiler diagnostics (JSON) and program output are the observed events"),
    ],
    checks=checks,
    notes="Runtime monitoring only: every verdict is 'held on the executions observed'. Exit 2 + INCONCLUSIVE line = a lane could not run or observed nothing; it is never reported as a violation. VERIF_SEED selects the random part of each workload; the directed corpus is seed independent.",
    not_applicable=NOT_APPLICABLE,
)
json.dump(m, open(os.path.join(ROOT, "MANIFEST.json"), "w"), indent=1)
print("MANIFEST.json:", len(checks), "checks,", len(NOT_APPLICABLE), "not applicable")
