"""Per-property configuration of the monitored workloads (lanes, budgets, rules)."""

COMMON_ASSUME = [
    "num-bigint 0.4.8 arithmetic is the reference for exact integer results (operands are built from raw limbs, never through ruint's num-bigint glue)",
    "widths are the finite list instantiated in the workload binary (see coverage.by_width); other widths are represented only by their class (LIMBS, BITS%64, BITS%8)",
    "a run shows the property held on the executions observed, not for all inputs",
]


def lanes(quick_scale=1.0, thorough_scale=30.0, miri=None, asan=False, memcheck=False, quick_shards=8,
          miri_quick=True):
    """Standard lane layout. `miri` = dict(light, scale, widths) or None.

    Light lanes (Miri, memcheck) thin the directed corpus at generation time with
    probability `light` and run `scale` times the random budget; every shard
    draws its own subset."""
    q = [dict(lane="checked", shards=quick_shards, scale=quick_scale),
         dict(lane="release", shards=quick_shards, scale=quick_scale)]
    t = [dict(lane="checked", shards=16, scale=thorough_scale),
         dict(lane="release", shards=16, scale=thorough_scale)]
    if miri:
        mq = dict(lane="miri", shards=3, watchdog=3600, max_seconds=60)
        mq.update(miri)
        if miri_quick:
            q.append(mq)
        mt = dict(mq)
        mt["shards"] = 8
        mt["max_seconds"] = 600
        mt["light"] = min(1.0, mq.get("light", 0.01) * 6)
        mt["scale"] = mq.get("scale", 0.01) * 6
        mt["watchdog"] = 14400
        t.append(mt)
        mr = dict(mt)
        mr["lane"] = "miri-release"
        mr["shards"] = 4
        t.append(mr)
    if asan:
        t.append(dict(lane="asan", shards=16, scale=max(1.0, thorough_scale / 4)))
    if memcheck:
        t.append(dict(lane="memcheck", shards=8, scale=0.05, light=0.05, watchdog=7200))
    return dict(quick=q, thorough=t)


MIRI_W = [0, 1, 7, 63, 64, 65, 128, 129, 256, 521]


def _with_extra(l, quick=(), thorough=()):
    l = dict(l)
    l["quick"] = list(l["quick"]) + list(quick)
    l["thorough"] = list(l["thorough"]) + list(thorough)
    return l

PROPS = {
    "C01": dict(
        bin="c01",
        lanes=lanes(quick_scale=20.0, thorough_scale=120.0,
                    miri=dict(light=0.004, scale=0.002, widths=MIRI_W)),
        primary_lane="checked",
        rule="Cases are (operation group, width, operand tuple): a fixed directed corpus (all pairs at BITS<=4, "
             "boundary values against complements/negations/neighbours, carry and borrow chains over every limb range) "
             "plus seeded hostile pairs (limb alphabet, sparse limbs, 2^k+-1, complements). Each case checks every "
             "variant (overflowing/checked/saturating/wrapping, six operator shapes, abs_diff, Sum) against BigUint. "
             "Non-trivial: not all operands zero (sum: >= 2 non-zero terms).",
        assumptions=COMMON_ASSUME,
    ),
    "C02": dict(
        bin="c02",
        lanes=lanes(quick_scale=12.0, thorough_scale=80.0,
                    miri=dict(light=0.003, scale=0.002, widths=MIRI_W)),
        primary_lane="checked",
        hooks_expected=["ADDMUL_TRIM_A_LO", "ADDMUL_TRIM_A_HI", "ADDMUL_TRIM_B_LO", "ADDMUL_TRIM_B_HI",
                        "ADDMUL_RET_EMPTY_OPERAND", "ADDMUL_RET_EMPTY_LHS", "ADDMUL_SWAP", "ADDMUL_FULL_ROW",
                        "ADDMUL_ROW_CARRY_OUT", "ADDMUL_SHORT_WINDOW", "ADDMUL_LHS_EXHAUSTED"],
        rule="Cases: mul (all variants + six operator shapes), inv_ring, widening product over a 10x10 (BITS, BITS_RHS) grid, "
             "Product; operands: all pairs at BITS<=4, boundary pairs, products at 2^BITS+-small (a = ceil(2^BITS/b) and "
             "neighbours), sparse operands x*2^(64i) * y*2^(64j) for all limb offsets (addmul trimming / short-window arms), "
             "hostile random. Non-trivial: both operands non-zero (inv_ring: value >= 2).",
        assumptions=COMMON_ASSUME,
    ),
    "C03": dict(
        bin="c03",
        lanes=lanes(quick_scale=6.0, thorough_scale=40.0,
                    miri=dict(light=0.003, scale=0.004, widths=MIRI_W), asan=True),
        primary_lane="checked",
        hooks_expected=["DIV_NUM_ZERO", "DIV_NUM_SHORT", "DIV_1X1", "DIV_NX1", "DIV_NX2", "DIV_NXM", "KNUTH_FORCED",
                        "KNUTH_QZERO", "KNUTH_ADDBACK_NOSHIFT", "KNUTH_ADDBACK_SHIFT", "KNUTH_STEP_NOSHIFT",
                        "KNUTH_STEP_SHIFT", "KNUTH_QHIGH_NONZERO", "NX1_NORMALIZED", "NX1_SHIFT", "NX2_NORMALIZED",
                        "NX2_SHIFT", "D2X1_ADJ1", "D2X1_ADJ2", "D3X2_ADJ1", "D3X2_ADJ2", "RECIP2_C1", "RECIP2_C2",
                        "RECIP2_C3", "RECIP2_C4"],
        rule="One case = (n, d) at a width; checks div_rem, / % in six shapes each, wrapping_/checked_div/rem, div_ceil, "
             "(checked_)next_multiple_of, zero-divisor behaviour. Operands: all pairs at BITS<=4, boundary grid, and for every "
             "divisor limb length x every top-limb bit length 1..64 the recipes n = Q*d - delta (add-back), n = d*B^k - delta "
             "(forced digit), n = Q*d + r with extreme r, equal leading limbs, d*2^k+-1, hostile. Non-trivial: d >= 2 and n >= d.",
        assumptions=COMMON_ASSUME,
    ),
    "C05": dict(
        bin="c05",
        lanes=lanes(quick_scale=4.0, thorough_scale=20.0,
                    miri=dict(light=0.0008, scale=0.003, widths=MIRI_W)),
        primary_lane="checked",
        rule="Cases: shl / shr (overflowing, checked, saturating, wrapping, arithmetic_shr, and << >> <<= >>= for usize,u8,u16,"
             "u32,u64,isize,i8,i16,i32,i64 by value and by reference whenever the amount fits the type), rotations, and "
             "Uint-typed amounts of any magnitude. Grid: single-bit / all-ones / alphabet values x every amount in "
             "[0, BITS+64*LIMBS+1] at widths <= 257 (all bit positions at BITS<=64; all positions at <= 257 in the thorough "
             "tier), boundary amounts beyond, huge amounts up to usize::MAX, Uint amounts 2^64, 2^64+3, MAX. "
             "Non-trivial: value != 0 and amount != 0.",
        assumptions=COMMON_ASSUME + ["negative amounts of the signed operator overloads are outside the property and never generated"],
    ),
    "C06": dict(
        bin="c06",
        lanes=lanes(quick_scale=12.0, thorough_scale=80.0,
                    miri=dict(light=0.002, scale=0.003, widths=MIRI_W)),
        primary_lane="checked",
        rule="Cases: logic (! & | ^ in all shapes), count (leading/trailing zeros/ones, count_ones/zeros, bit_len, byte_len, "
             "reverse_bits, is_power_of_two, (checked_)next_power_of_two, most_significant_bits), index (bit, set_bit, byte, "
             "checked_byte for every index in [0, BITS+64] and huge indices). Values: single bits and single zeros at every "
             "position, runs of ones starting/ending at limb boundaries, boundary and hostile values. "
             "Non-trivial: value not in {0, MAX} or an index-addressed operation.",
        assumptions=COMMON_ASSUME,
    ),
    "C07": dict(
        bin="c07",
        lanes=lanes(quick_scale=8.0, thorough_scale=50.0,
                    miri=dict(light=0.002, scale=0.002, widths=MIRI_W)),
        primary_lane="checked",
        rule="Cases: from.<T> for bool,u8..u128,usize,i8..i128,isize (try_from incl. error kind, bits field and wrapped payload; "
             "from; wrapping_from; saturating_from), to_prims (try_from by ref and value, to, wrapping_to, saturating_to for all "
             "13 targets incl. error payloads), uint_uint over a 14x14 width grid, limbs_slice (all *_from_limbs_slice and "
             "from_limbs for slice lengths 0..LIMBS+2). Sources: type MIN/MAX, +-2^k, +-(2^k+-1) around BITS and the type "
             "width, all 256 values of u8/i8, structured u128. The ValueNegative payload is only checked when BITS <= source "
             "width, as the property states. Non-trivial: source value not in {0, 1}.",
        assumptions=COMMON_ASSUME,
    ),
    "C14": dict(
        bin="c14",
        lanes=_with_extra(lanes(quick_scale=12.0, thorough_scale=100.0,
                                miri=dict(light=0.01, scale=0.0015), asan=True),
                          quick=[dict(lane="release", shards=16, scale=1.0, extra=dict(recipsweep=200000))],
                          thorough=[dict(lane="release", shards=16, scale=1.0, extra=dict(recipsweep=4000000))]),
        primary_lane="checked",
        hooks_expected=["KNUTHN_FORCED", "KNUTHN_ADDBACK", "KNUTHN_STEP", "KNUTH_FORCED", "KNUTH_QZERO",
                        "KNUTH_ADDBACK_NOSHIFT", "KNUTH_ADDBACK_SHIFT", "KNUTH_QHIGH_NONZERO", "NX1_NORMALIZED", "NX1_SHIFT",
                        "NX2_NORMALIZED", "NX2_SHIFT", "D2X1_ADJ1", "D2X1_ADJ2", "D3X2_ADJ1", "D3X2_ADJ2", "RECIP2_C1",
                        "RECIP2_C2", "RECIP2_C3", "RECIP2_C4", "DIV_NUM_ZERO", "DIV_NUM_SHORT", "DIV_1X1", "DIV_NX1",
                        "DIV_NX2", "DIV_NXM"],
        rule="Cases at slice level: algorithms::div for every (numerator length, divisor length) in 1..=12 x 1..=12 with zero "
             "padding, div_nxm, div_nxm_normalized (numerator's top limbs below the divisor, incl. equal lengths), div_nx1/nx2 "
             "and their normalized forms, div_2x1 / div_3x2 (mg10 and ref twin of 2x1), reciprocal / reciprocal_2 (mg10, ref) "
             "for all 256 table rows, plus a bulk sweep of reciprocal / reciprocal_2 (200 000 resp. 4 000 000 samples per "
             "table row and shard: low-discrepancy, end-weighted, random) that routes only mismatches through the "
             "monitored path; each strictly inside its documented + debug-asserted preconditions. div_3x2_ref is "
             "documented in its source as off by one and is only counted. Non-trivial: divisor or numerator >= 2 limbs "
             "(always true for the word-level kernels).",
        assumptions=COMMON_ASSUME + ["kernel preconditions are those documented in the source plus the kernel's own debug_assert!s; div_nxm_normalized additionally needs the numerator's top divisor.len() limbs below the divisor (otherwise the quotient has no representation)"],
    ),
    "C15": dict(
        bin="c15",
        lanes=lanes(quick_scale=40.0, thorough_scale=300.0,
                    miri=dict(light=0.01, scale=0.004)),
        primary_lane="checked",
        hooks_expected=["ADDMUL_TRIM_A_LO", "ADDMUL_TRIM_A_HI", "ADDMUL_TRIM_B_LO", "ADDMUL_TRIM_B_HI",
                        "ADDMUL_RET_EMPTY_OPERAND", "ADDMUL_RET_EMPTY_LHS", "ADDMUL_SWAP", "ADDMUL_FULL_ROW",
                        "ADDMUL_ROW_CARRY_OUT", "ADDMUL_SHORT_WINDOW", "ADDMUL_LHS_EXHAUSTED"],
        rule="Cases at slice level: addmul for every (accumulator, a, b) length combination in 0..=10^3, addmul_n, mul_nx1, "
             "addmul_nx1, submul_nx1, add_nx1, adc_n, sbb_n (lengths 0..=12), adc, sbb, carrying_add, borrowing_sub, "
             "shift_left/right_small for every amount 0..64, cmp on equal-length slices. Carry/borrow words are judged by "
             "conservation (result + word*2^(64N) equals the exact value). Non-trivial: at least two non-zero limbs overall.",
        assumptions=COMMON_ASSUME + ["length preconditions (`assume!`) are respected: violating them is UB in release builds and outside the property"],
    ),
    "C08": dict(
        bin="c08",
        lanes=lanes(quick_scale=30.0, thorough_scale=200.0,
                    miri=dict(light=0.01, scale=0.004, widths=[0, 7, 8, 57, 60, 64, 65, 124, 128, 250, 256]),
                    asan=True, memcheck=True),
        primary_lane="checked",
        rule="Cases: encode (every byte form of a value vs its base-256 digits: as_le_slice, as_le_bytes(_trimmed), "
             "to_le/be_bytes::<BYTES>, *_bytes_vec, *_trimmed_vec, copy_*_bytes_to into exact/longer/shorter buffers with a "
             "canary fill, checked_copy_*, from_*_bytes and slice decoders on the encodings) and decode_be / decode_le "
             "(try_from_*_slice, from_*_slice, from_*_bytes on arbitrary strings of every length 0..BYTES+8: all-0xff, zero, "
             "single set byte, random, valid value with each excess high bit set, value +- leading byte). "
             "Non-trivial: non-zero value / non-empty slice.",
        assumptions=COMMON_ASSUME,
    ),
    "C09": dict(
        bin="c09",
        lanes=lanes(quick_scale=5.0, thorough_scale=30.0,
                    miri=dict(light=0.002, scale=0.002, widths=[0, 1, 7, 64, 65, 128, 256]), memcheck=True),
        primary_lane="checked",
        rule="Cases: to_base (digit iterators for 15 fixed bases incl. 10^19, 2^63, 2^64-1 plus a random base, and the inverse "
             "from_base_le/be), from_base (digit strings with zero or one fault: overflow by one unit / one digit, digit >= base, "
             "base < 2; several faults only require Err), fmt (Display, Debug, Binary, Octal, LowerHex, UpperHex x 18 flag "
             "combinations x widths 1,5,20,70,140 vs Formatter::pad_integral on BigUint digits and vs u128 formatting when the "
             "value fits), parse (from_str_radix for every radix 0..=65 incl. every single-character string, '_' handling, one "
             "invalid character, digit equal to the radix, overflow by one), from_str with 0x/0o/0b prefixes. "
             "Non-trivial: value >= base, or a string of >= 2 characters.",
        assumptions=COMMON_ASSUME + ["std's Formatter::pad_integral and u128 formatting are the reference for text layout",
                                     "format specs outside the grid ({:x?}, precision) are not observed"],
    ),
    "C10": dict(
        bin="c10",
        lanes=lanes(quick_scale=6.0, thorough_scale=40.0,
                    miri=dict(light=0.002, scale=0.002, widths=[1, 7, 64, 65, 128, 129, 256])),
        primary_lane="checked",
        hooks_expected=["INVMOD_LEHMER_STEP", "INVMOD_EUCLID_STEP", "DIV_NXM", "DIV_NX1", "DIV_NX2", "ADDMUL_FULL_ROW"],
        rule="Cases: mod3 (reduce_mod, add_mod, mul_mod), pow_mod, inv_mod vs BigUint; moduli 0, 1, 2, 3, 2^k, 2^k+-1, 2^BITS-1, "
             "short (1..LIMBS limbs), alphabet; operands >= m, a = b = m-1, sums/products overflowing BITS; exponents 0, 1, 2^k, "
             "small, full width (<= 1024 bits); inv_mod also on pairs with a known quotient sequence (Fibonacci, huge quotients, "
             "2^32+-1). All triples enumerated at BITS<=3. Non-trivial: m >= 2 and an operand >= 2.",
        assumptions=COMMON_ASSUME,
    ),
    "C11": dict(
        bin="c11",
        lanes=lanes(quick_scale=60.0, thorough_scale=600.0,
                    miri=dict(light=0.02, scale=0.01)),
        primary_lane="checked",
        hooks_expected=["REDC_MUL_CARRY_TRACKED", "REDC_MUL_CARRY_IGNORED", "REDC_MUL_CARRY_SET", "REDC_SQ_WIDE", "REDC_SQ_NARROW",
                        "REDC_SQ_OUTER_0", "REDC_SQ_OUTER_1", "REDC_SQ_OUTER_2", "REDC_SQ_CARRY_HI", "REDC_REDUCE_SUB_CARRY",
                        "REDC_REDUCE_SUB_NOBORROW", "REDC_REDUCE_KEEP"],
        rule="Cases: slice-level mul_redc / square_redc for every N in 1..=16 and Uint::mul_redc / square_redc at 24 widths; odd "
             "moduli >= 3 in 18 top-limb classes (0 = short, 1, 2^62-2..2^62+1, 2^64/3-1..2^64/3+1, 2^63-2..2^63+1, MAX-1, MAX, random, alphabet), "
             "operands 0, 1, 2, m-1, m-2, m/2, alphabet mod m. Oracle: r < m and r*R = a*b (mod m) with R = 2^(64N); inv computed "
             "by the harness's own Newton iteration. Non-trivial: a, b >= 2.",
        assumptions=COMMON_ASSUME,
    ),
    "C12": dict(
        bin="c12",
        lanes=lanes(quick_scale=6.0, thorough_scale=40.0,
                    miri=dict(light=0.002, scale=0.0004, widths=[1, 7, 64, 65, 128, 129, 256, 320])),
        primary_lane="checked",
        hooks_expected=["LEHMER_FROM_LE64", "LEHMER_FROM_LE128", "LEHMER_FROM_GT128", "PREFIX_RET_A1_SMALL", "PREFIX_RET_A2_SMALL_OK",
                        "PREFIX_RET_A2_SMALL_ID", "PREFIX_RET_EVEN_I2", "PREFIX_RET_EVEN_I1", "PREFIX_RET_EVEN_I0",
                        "PREFIX_RET_ODD_I2", "PREFIX_RET_ODD_I1", "PREFIX_RET_ODD_I0", "GCD_LEHMER_STEP", "GCD_EUCLID_STEP",
                        "GCDX_LEHMER_STEP", "GCDX_EUCLID_STEP"],
        rule="Cases: gcd (gcd, lcm, gcd_extended with the Bezout identity modulo 2^BITS in both argument orders), matrix "
             "(LehmerMatrix::from for a >= b: identity or (c, d) with c >= d >= 0, d < b, gcd preserved; apply reproduces the exact "
             "image), from_u64, prefix64 / prefix128 (from_u64_prefix / from_u128_prefix applied to random extensions of 0..192 "
             "bits with zero / all-one / random tails). Pairs are built bottom-up from quotient sequences (all ones, one huge, "
             "alternating, around 2^32, alphabet) scaled by 2^k and large odd factors, plus a = b, a = b+-1, boundary and hostile "
             "pairs; all pairs enumerated at BITS<=4. Non-trivial: min(a, b) >= 2.",
        assumptions=COMMON_ASSUME + ["LehmerMatrix::compose is not part of the property and is not checked"],
    ),
    "C13": dict(
        bin="c13",
        # Miri only interprets the `pow` operation (exact integer code); log and root go through f64 exp2/log2,
        # which Miri perturbs on purpose. AddressSanitizer runs the whole workload natively.
        lanes=lanes(quick_scale=5.0, thorough_scale=30.0, asan=True,
                    miri=dict(light=0.02, scale=0.003, widths=[0, 1, 7, 63, 64, 65, 128, 129, 192, 256], extra=dict(ops="pow"))),
        primary_lane="checked",
        hooks_expected=["LOG_DECREMENT", "LOG_OVERFLOW_DECREMENT", "ROOT_FIXPOINT", "ROOT_STOP_INCREASE", "ROOT_CAPPED_INCREASE",
                        "ROOT_DECREASE"],
        rule="Cases: pow (pow, wrapping/overflowing/checked/saturating_pow vs modpow and an exact overflow decision), log (log and "
             "checked_log for every base class incl. 0, 1, MAX), log2_10 (log2, log10 and checked forms incl. widths 1..3), root "
             "(every degree 0..=BITS+2 at widths <= 257; r^d <= v < (r+1)^d). Values: exponents around BITS/log2(b), perfect powers "
             "b^e and k^d with neighbours +-1, powers of ten, 53/54-bit heads with all-zero / all-one tails (f64 rounding "
             "boundaries). Everything enumerated at BITS<=4. Termination is decided by the per-call loop cap (10^6 iterations) of "
             "the hooks, never by wall-clock. Non-trivial: base/value >= 2 and exponent/degree >= 2.",
        assumptions=COMMON_ASSUME + ["log and root are never run under Miri: Miri perturbs exp2/log2 results, which would create executions the real program cannot have; the Miri lanes run the pow operation only"],
    ),
    "C16": dict(
        bin="c16",
        lanes=lanes(quick_scale=1.0, thorough_scale=8.0,
                    miri=dict(light=0.0015, scale=0.0001), asan=True),
        primary_lane="checked",
        rule="One case = (integration, width, value); integrations: serde_json, bincode, rlp, alloy_rlp, fastrlp 0.3/0.4, SCALE "
             "fixed and compact, ssz, borsh, der, postgres (17 column types), num_bigint, primitive_types, bytemuck, ark-ff "
             "0.3/0.4. Checks: decode(encode(v)) = v; advertised length = produced length where exact, >= where an upper bound, "
             "and computing it never panics; bytes = an independent reference encoder written from the format definition on the "
             "raw limbs; bytes = the codec crate's own encoding of the equal u64/u128 where it implements the format. Values: all "
             "2^BITS values at BITS<=16, every mode boundary of RLP / SCALE compact / postgres integer columns, 2^(8k)+-1, "
             "55/56-byte payloads, 10000^k, bn254 moduli +-2, hostile random. Non-trivial: value >= 2.",
        assumptions=COMMON_ASSUME + ["the hand-written reference encoders (RLP, SCALE, SSZ, borsh, DER, JSON, bincode) are trusted",
                                     "third-party crates are not judged, only ruint's glue"],
    ),
    "C17": dict(
        bin="c17",
        lanes=lanes(quick_scale=0.25, thorough_scale=3.0, quick_shards=8,
                    miri=dict(light=0.002, scale=0.0005, widths=[0, 7, 60, 63, 64, 65, 250, 256]), asan=True),
        primary_lane="checked",
        rule="One case = (decoder entry point, width, input bytes or text[, injected fault]); 57 entry points: byte-slice and text "
             "parsers, serde (JSON str/slice/value, u64/u128 visitors, bincode incl. a reader), rlp, alloy-rlp, fastrlp 0.3/0.4, "
             "SCALE fixed/compact (incl. a faulty Input), ssz, borsh (incl. readers delivering one byte at a time, Interrupted, "
             "EOF or an error at offset k), DER (from_der and the AnyRef/Any/IntRef/Int/UintRef/Uint conversions), 17 postgres "
             "column types, num-bigint. Oracle: no panic; Ok(v) => v canonical and equal to an independent reference decoder; "
             "truncated / wrong tag / length contradiction / value >= 2^BITS => Err; alloy-rlp, fastrlp and DER: Ok => re-encoding "
             "reproduces the consumed bytes. Inputs: valid encodings with one field mutated, every 0-, 1- and 2-byte input, "
             "random strings up to BYTES+16. Non-trivial: input of >= 2 bytes / characters.",
        assumptions=COMMON_ASSUME + ["the hand-written reference decoders are trusted and restricted to the clear-cut classes (truncation, tag/type mismatch, length contradiction, over-range)",
                                     "non-minimal encodings are only required to be rejected by alloy-rlp, fastrlp and DER"],
    ),
    "C18": dict(
        bin="c18",
        lanes=dict(
            quick=[dict(lane="checked", shards=8, scale=3.0), dict(lane="release", shards=8, scale=3.0)]
                  + [dict(lane="release", shards=16, scale=1.0, extra=dict(f32sweep=w), tag=f"f32sweep{w}") for w in (7, 64)],
            thorough=[dict(lane="checked", shards=16, scale=15.0), dict(lane="release", shards=16, scale=15.0),
                      dict(lane="asan", shards=16, scale=4.0)]
                     + [dict(lane="release", shards=16, scale=1.0, extra=dict(f32sweep=w), tag=f"f32sweep{w}") for w in (7, 25, 64, 128)]),
        primary_lane="checked",
        rule="Cases: to_float (f64::from / f32::from by value and reference: result is one of the two floats around the exact "
             "value, exact when representable, +inf only from 2^1024-2^970 resp. 2^128-2^103), to_float_mono (sorted and adjacent "
             "pairs), from_f64 / from_f32 (try_from, from, saturating_from, wrapping_from vs exact floor(f+1/2) on the IEEE fields; "
             "NaN, negative, too large). Grid: both signs x all 2048 f64 exponents x 11 mantissa patterns, all 256 f32 exponents x 7 "
             "patterns, integers in [2^52, 2^53), k+1/2, 2^BITS and neighbours, subnormals, +-0, +-inf, NaNs; Uint values with "
             "24/25/53/54/64/65-bit heads and zero / one / half-ulp tails. Additionally all 2^32 f32 bit patterns are swept "
             "through try_from at BITS = 7 and 64 (quick) and 7, 25, 64, 128 (thorough). Non-trivial: finite non-zero float / value >= 2^53.",
        assumptions=COMMON_ASSUME + ["the host's IEEE-754 arithmetic and f32<->f64 conversions are exact as specified",
                                     "native lanes only: Miri deliberately perturbs exp2/log2"],
    ),
    "C20": dict(
        bin="c20",
        lanes=lanes(quick_scale=3.0, thorough_scale=15.0,
                    miri=dict(light=0.0005, scale=0.0003, widths=[0, 1, 7, 64, 65, 128, 256])),
        primary_lane="checked",
        rule="Differential cases: for every width and operand tuple each facade (six operator shapes of + - * / % & | ^, unary - !, "
             "<< >> for 10 integer amount types and Uint amounts, every forwarded Bits method and operator, every num-traits impl, "
             "all num-integer Integer methods, subtle ct_eq/ct_ne/ct_gt/ct_lt, conditional_select/assign/swap/negate and bit_ct, "
             "Sum/Product, Zeroize; 346 entry points) must return what the inherent Uint method of the same meaning returns, both "
             "evaluated under catch_unwind (both panic = agree, one panics = violation; a facade may panic only where its signature "
             "cannot express the inherent None). Operands: boundary pairs, zero and near-equal divisors, over-wide shift amounts, "
             "hostile random. Non-trivial: operands not all zero.",
        assumptions=COMMON_ASSUME + ["the inherent methods are the reference here; they are themselves checked against BigUint by C01-C13",
                                     "constant-time behaviour of the subtle impls is not observable by this technique"],
    ),
}

# ----------------------------------------------------------------------------- custom checks (compile probes)

def _c04_custom(pid, tier, seed, ctx):
    import time
    import probes
    t0 = time.time()
    P = PROPS[pid]
    results, inconclusive = ctx["run_lanes"](pid, P, tier, seed, ctx["WORK"])
    ev, distinct, samples, viol, inc, detail = probes.run_illformed(tier, ctx)
    inconclusive += inc
    extra = dict(detail)
    extra["evaluations_extra"] = ev
    extra["distinct_nontrivial_extra"] = distinct
    return ctx["finish"](pid, P, tier, seed, results, inconclusive, t0, extra_cov=extra, extra_violations=viol, extra_samples=samples)


def _c19_custom(pid, tier, seed, ctx):
    import time
    import probes
    t0 = time.time()
    P = PROPS[pid]
    ev, distinct, samples, viol, inc, detail = probes.run_macro(tier, seed, ctx)
    extra = dict(detail)
    extra["evaluations_extra"] = ev
    extra["distinct_nontrivial_extra"] = distinct
    return ctx["finish"](pid, P, tier, seed, [], list(inc), t0, extra_cov=extra, extra_violations=viol, extra_samples=samples)


def _probe_replay(pid, path, ctx):
    import json
    import probes
    rec = json.load(open(path))
    if rec.get("replay_kind") == "illformed":
        bad = probes.replay_illformed(rec, ctx)
    elif rec.get("replay_kind") == "macro":
        bad = probes.replay_macro(rec, ctx)
    else:
        return None
    if bad:
        print(f"VIOLATION property={pid} replay={path}")
        return 1
    print("replay: held")
    return 0


PROPS["C04"] = dict(
    bin="c04",
    custom=_c04_custom,
    probe_replay=_probe_replay,
    lanes=lanes(quick_scale=15.0, thorough_scale=120.0,
                miri=dict(light=1.0, scale=0.002, widths=[0, 1, 7, 63, 64, 65, 128, 129, 256])),
    primary_lane="checked",
    rule="(a) closure walk: every shard runs one history; each step applies an operation group from the safe public API "
         "(arithmetic, division, gcd, modular, pow, root, bit ops, shifts/rotations, constants, conversions from every primitive, "
         "floats and other widths, byte / text / digit decoders, *_from_limbs_slice, rand 0.8 / 0.9, arbitrary, proptest "
         "(incl. shrinking), quickcheck) to operands drawn from per-width pools of previously produced values, checks every "
         "produced value for canonical form and feeds it back (values migrate between 20 widths through the cross-width "
         "conversions); after every 8 steps sampled pairs (equal, random, one-bit neighbours) are compared: == != hash cmp "
         "partial_cmp < <= > >= min max vs BigUint order. (b) rejecting constructors on out-of-range limbs. (c) compile probes: "
         "for 9 ill-formed (BITS, LIMBS) pairs one generated program per constant / constructor; outcome must be a compile "
         "error, a panic, or None/Err - printing a value is a violation; the same probe asserts that no width with padding bits in "
         "its top limb implements bytemuck::Pod (a safe cast would otherwise yield a non-canonical value); every probe has a "
         "well-formed control that must compile. Non-trivial: every walk step and every probe program "
         "(distinct by operation, width and operands / by program).",
    assumptions=COMMON_ASSUME + ["values produced through unsafe API (as_limbs_mut, as_le_slice_mut) are outside the property",
                                 "the ill-formed grid is the finite list of 9 (BITS, LIMBS) pairs x the listed constructors"],
)

PROPS["C19"] = dict(
    bin=None,
    custom=_c19_custom,
    probe_replay=_probe_replay,
    lanes=dict(quick=[], thorough=[]),
    primary_lane="probe",
    rule="Generated programs using ruint::uint! from the working tree. Positive: hundreds of literals (bases 2/8/10/16, up to "
         "~1200 digits, underscores, leading zeros, U and B suffix widths 0..=4096; values 0, 1, 2^bits-1, 2^k-1, random) nested in "
         "14 expression contexts and as const items; each prints its width and limbs, compared with Python's int(digits, base) and "
         "with the program's own run-time from_str_radix of the same digits. Pass-through tokens (suffixed primitives, floats, "
         "byte/str literals, hex literals ending in B<digits>) are asserted unchanged. Negative: one bad literal per line (value "
         "= 2^bits, 2^bits+k, one limb too many, hundreds of excess bits; a digit invalid for the base incl. the digit equal to "
         "the base) interleaved with valid lines; rustc's JSON diagnostics must contain an error whose primary span is on every "
         "bad line and on no good line. Half of the programs are seed independent. Non-trivial: literal of >= 2 digits.",
    assumptions=["Python integers are the reference for literal values", "rustc's lexer rejects 0b2 / 0o8 before the macro runs; those forms are not generated",
                 "a run shows the property held on the programs generated, not for all programs"],
)


TRUST = ("Trusted base: rustc/cargo, num-bigint as arithmetic reference, the hand-written oracle in the workload binary, "
         "the coverage hooks being add-only. Finite width list and sampled operands; sanitizer lanes see only reached code.")


LEVEL = {
    "C08": "every byte form of a value vs its base-256 digits, canary-filled copy buffers, and both slice decoders on strings of every length 0..BYTES+8 incl. each excess high bit",
    "C09": "digit iterators and inverses for 16 bases, six formatting traits x 18 flag combinations vs pad_integral/u128, from_str_radix for every radix 0..=65 with single-fault inputs, FromStr prefixes",
    "C10": "reduce/add/mul/pow/inv_mod vs BigUint for every modulus class incl. 0 and 1; all triples at BITS<=3",
    "C11": "Montgomery mul/square at slice level for N=1..16 and through Uint, with hook counters proving the carry-tracked, carry-set, carry_outer=2 and all three reduction arms ran",
    "C12": "gcd/lcm/Bezout and the Lehmer matrix contracts (full and prefix, on extensions) vs Euclid in BigUint on quotient-sequence pairs; hook counters for all 12 from_u64_prefix outcomes",
    "C13": "pow value+flag, log/log2/log10 (incl. widths 1..3), root for every degree, with termination restated as a per-call loop cap observed by hooks",
    "C16": "17 integrations: round-trip, advertised length, bytes vs an independent reference encoder and vs the codec crate's own primitive encoding",
    "C17": "57 decoder entry points on mutated / truncated / over-range / exhaustive-small inputs and with injected reader faults vs independent reference decoders",
    "C18": "exact rational oracle on the IEEE-754 fields for both directions; all 2^32 f32 bit patterns at four widths in the thorough tier",
    "C20": "346 facade entry points compared with the inherent method of the same meaning under catch_unwind",
    "C04": "histories of ~60 operation groups with result feedback and cross-width migration, canonical-form invariant on every produced value, Eq/Hash/Ord vs BigUint on sampled pairs, plus compile probes for 9 ill-formed (BITS, LIMBS) pairs x up to 58 constants/constructors",
    "C19": "generated uint! programs compiled against the working tree: literal values vs Python integers and run-time parsing, pass-through tokens, and per-line compile diagnostics for bad literals",
    "C01": "add/sub/neg/abs_diff/Sum in every variant and operator shape vs BigUint at 32 widths; all pairs enumerated at BITS<=4",
    "C02": "mul variants, widening grid, inv_ring, Product vs BigUint with the addmul coverage hooks showing every trimming / short-window / carry arm was executed through the Uint API",
    "C03": "div_rem and all derived forms vs BigUint on constructive recipes for the add-back, forced-digit and reciprocal-correction paths; hook counters in the evidence state how many cases reached each path",
    "C05": "shift values and lost-bit flags, rotations, arithmetic shift, 10 integer-typed operator overloads and Uint amounts vs BigUint; every amount in [0, BITS+64*LIMBS+1] at widths <= 257",
    "C06": "bitwise logic, bit/byte access and counting vs the binary expansion; every index in [0, BITS+64]; single bits / single zeros at every position",
    "C07": "13 primitive sources and targets x 30 widths, 14x14 Uint-to-Uint grid, limb slices of every length 0..LIMBS+2, incl. error kinds and payloads, vs exact integer arithmetic",
    "C14": "every slice-level division kernel vs BigUint inside its documented preconditions, all 256 reciprocal table rows, all (numerator, divisor) length pairs 1..=12",
    "C15": "every slice-level arithmetic kernel vs BigUint with conservation oracles for carry/borrow words, all length combinations 0..=10 for addmul",
}
SANI = {
    "C08": "Miri shard in quick (raw pointer reads in the whole-limb fast path, byte views); Miri dev+release, AddressSanitizer and valgrind memcheck in thorough",
    "C09": "Miri shard in quick (MaybeUninit format buffer); Miri dev+release and valgrind memcheck in thorough",
    "C10": "Miri shard in quick (from_raw_parts_mut product buffer in mul_mod); Miri dev+release in thorough",
    "C11": "Miri shard in quick; Miri dev+release in thorough",
    "C12": "Miri shard in quick; Miri dev+release in thorough",
    "C13": "Miri shard in quick on the pow operation only (log and root are float-dependent: Miri would perturb exp2/log2); Miri dev+release (pow) and AddressSanitizer (everything) in thorough",
    "C16": "Miri shard in quick (as_le_slice_mut byte reversal in the RLP encoders, borsh, bytemuck); Miri dev+release and AddressSanitizer in thorough",
    "C17": "Miri shard in quick; Miri dev+release and AddressSanitizer in thorough; aborts (allocation failure) are caught by running shards as supervised subprocesses with a per-case journal",
    "C18": "AddressSanitizer in thorough; no Miri (float-dependent: Miri would perturb exp2/log2 and create executions the real program cannot have)",
    "C20": "Miri shard in quick; Miri dev+release in thorough",
    "C04": "Miri shard in quick (byte views, rand fill through the limb array); Miri dev+release in thorough",
    "C19": "none (the observable is the compiler's outcome)",
    "C01": "Miri shard in quick; Miri dev+release in thorough",
    "C02": "Miri shard in quick; Miri dev+release in thorough",
    "C03": "Miri shard in quick; Miri dev+release and AddressSanitizer in thorough",
    "C05": "Miri shard in quick; Miri dev+release in thorough",
    "C06": "Miri shard in quick (raw byte view behind byte()); Miri dev+release in thorough",
    "C07": "Miri shard in quick; Miri dev+release in thorough",
    "C14": "Miri shard in quick (unchecked indexing in div_nx1/div_nx2 and the reciprocal table); Miri dev+release and AddressSanitizer in thorough",
    "C15": "Miri shard in quick; Miri dev+release in thorough (`assume!` = unreachable_unchecked in release)",
}
TECH = {
    "C04": "runtime invariant monitor over operation histories with result feedback (canonical form, Eq/Hash/Ord vs BigUint) + compile-probe monitor over generated programs built in the dev and the release profile (compiler diagnostics and program output as the event log)",
    "C16": "runtime reference-model monitor: independent reference encoders + differential check against the codec crates' own primitive encodings, round-trip oracle",
    "C17": "runtime monitor of decoders under hostile inputs and injected reader faults: panic/abort observation (catch_unwind, supervised subprocess + journal), independent reference decoders, re-encode oracle",
    "C18": "runtime reference-model monitor with an exact rational oracle on IEEE-754 fields; exhaustive f32 sweep in thorough",
    "C19": "compile-probe monitor: generated programs compiled against the working tree in the dev and the release profile (the proc-macro runs with and without overflow checks); rustc JSON diagnostics and program output are the observed events, judged against Python integers",
    "C20": "differential runtime monitor: facade vs inherent method, both under catch_unwind",
}
ENGINE = {"C19": "probes"}
MANIFEST_TEXT = {
    pid: dict(
        level_text="Reference-model monitoring of the real code: " + LEVEL[pid] + ". Quick ~10^6, thorough ~10^7-10^8 monitored cases; "
                   "canonical-form invariant on every produced Uint; debug-assertion and release builds both run. Exploration is the "
                   "honest level: the quantifier ranges over inputs and widths, which a monitor samples (enumerated sub-spaces are listed "
                   "in the evidence).",
        design_ref=f"DESIGN.md section 4 ({pid})",
        level_note=TRUST,
        technique=TECH.get(pid, "runtime reference-model monitor (independent BigUint oracle) over directed + hostile workloads, coverage hooks, "
                  "debug-assert and release lanes") + "; sanitizer lanes: " + SANI[pid],
        engine=ENGINE.get(pid, "vmon"),
        also_probes=(pid == "C04"),
    )
    for pid in PROPS
}

_PENDING = "check under construction in this build round; will be claimed once its monitor is validated on the unchanged tree"
NOT_APPLICABLE = [dict(property_id=f"C{i:02d}", reason=_PENDING) for i in range(1, 21) if f"C{i:02d}" not in PROPS]
