"""Per-property configuration of the monitored workloads (lanes, budgets, rules)."""

COMMON_ASSUME = [
    "num-bigint 0.4.8 arithmetic is the reference for exact integer results (operands are built from raw limbs, never through ruint's num-bigint glue)",
    "widths are the finite list instantiated in the workload binary (see coverage.by_width); other widths are represented only by their class (LIMBS, BITS%64, BITS%8)",
    "a run shows the property held on the executions observed, not for all inputs",
]


def lanes(quick_scale=1.0, thorough_scale=30.0, miri=None, asan=False, memcheck=False, quick_shards=8,
          miri_quick=True):
    """Standard lane layout. `miri` = dict(light, scale, widths) or None.

    Light lanes (Miri, memcheck) thin the directed corpus at generation time with
    probability `light` and run `scale` times the random budget; every shard
    draws its own subset."""
    q = [dict(lane="checked", shards=quick_shards, scale=quick_scale),
         dict(lane="release", shards=quick_shards, scale=quick_scale)]
    t = [dict(lane="checked", shards=16, scale=thorough_scale),
         dict(lane="release", shards=16, scale=thorough_scale)]
    if miri:
        mq = dict(lane="miri", shards=2, watchdog=3600, max_seconds=60)
        mq.update(miri)
        if miri_quick:
            q.append(mq)
        mt = dict(mq)
        mt["shards"] = 8
        mt["max_seconds"] = 600
        mt["light"] = min(1.0, mq.get("light", 0.01) * 6)
        mt["scale"] = mq.get("scale", 0.01) * 6
        mt["watchdog"] = 14400
        t.append(mt)
        mr = dict(mt)
        mr["lane"] = "miri-release"
        mr["shards"] = 4
        t.append(mr)
    if asan:
        t.append(dict(lane="asan", shards=16, scale=max(1.0, thorough_scale / 4)))
    if memcheck:
        t.append(dict(lane="memcheck", shards=8, scale=0.05, light=0.05, watchdog=7200))
    return dict(quick=q, thorough=t)


MIRI_W = [0, 1, 7, 63, 64, 65, 128, 129, 256, 521]

PROPS = {
    "C01": dict(
        bin="c01",
        lanes=lanes(quick_scale=4.0, thorough_scale=60.0,
                    miri=dict(light=0.004, scale=0.002, widths=MIRI_W), miri_quick=False),
        primary_lane="checked",
        rule="Cases are (operation group, width, operand tuple): a fixed directed corpus (all pairs at BITS<=4, "
             "boundary values against complements/negations/neighbours, carry and borrow chains over every limb range) "
             "plus seeded hostile pairs (limb alphabet, sparse limbs, 2^k+-1, complements). Each case checks every "
             "variant (overflowing/checked/saturating/wrapping, six operator shapes, abs_diff, Sum) against BigUint. "
             "Non-trivial: not all operands zero (sum: >= 2 non-zero terms).",
        assumptions=COMMON_ASSUME,
    ),
    "C02": dict(
        bin="c02",
        lanes=lanes(quick_scale=3.0, thorough_scale=40.0,
                    miri=dict(light=0.003, scale=0.002, widths=MIRI_W), miri_quick=False),
        primary_lane="checked",
        hooks_expected=["ADDMUL_TRIM_A_LO", "ADDMUL_TRIM_A_HI", "ADDMUL_TRIM_B_LO", "ADDMUL_TRIM_B_HI",
                        "ADDMUL_RET_EMPTY_OPERAND", "ADDMUL_RET_EMPTY_LHS", "ADDMUL_SWAP", "ADDMUL_FULL_ROW",
                        "ADDMUL_ROW_CARRY_OUT", "ADDMUL_SHORT_WINDOW", "ADDMUL_LHS_EXHAUSTED"],
        rule="Cases: mul (all variants + six operator shapes), inv_ring, widening product over a 10x10 (BITS, BITS_RHS) grid, "
             "Product; operands: all pairs at BITS<=4, boundary pairs, products at 2^BITS+-small (a = ceil(2^BITS/b) and "
             "neighbours), sparse operands x*2^(64i) * y*2^(64j) for all limb offsets (addmul trimming / short-window arms), "
             "hostile random. Non-trivial: both operands non-zero (inv_ring: value >= 2).",
        assumptions=COMMON_ASSUME,
    ),
    "C03": dict(
        bin="c03",
        lanes=lanes(quick_scale=2.0, thorough_scale=30.0,
                    miri=dict(light=0.003, scale=0.004, widths=MIRI_W), asan=True),
        primary_lane="checked",
        hooks_expected=["DIV_NUM_ZERO", "DIV_NUM_SHORT", "DIV_1X1", "DIV_NX1", "DIV_NX2", "DIV_NXM", "KNUTH_FORCED",
                        "KNUTH_QZERO", "KNUTH_ADDBACK_NOSHIFT", "KNUTH_ADDBACK_SHIFT", "KNUTH_STEP_NOSHIFT",
                        "KNUTH_STEP_SHIFT", "KNUTH_QHIGH_NONZERO", "NX1_NORMALIZED", "NX1_SHIFT", "NX2_NORMALIZED",
                        "NX2_SHIFT", "D2X1_ADJ1", "D2X1_ADJ2", "D3X2_ADJ1", "D3X2_ADJ2", "RECIP2_C1", "RECIP2_C2",
                        "RECIP2_C3", "RECIP2_C4"],
        rule="One case = (n, d) at a width; checks div_rem, / % in six shapes each, wrapping_/checked_div/rem, div_ceil, "
             "(checked_)next_multiple_of, zero-divisor behaviour. Operands: all pairs at BITS<=4, boundary grid, and for every "
             "divisor limb length x every top-limb bit length 1..64 the recipes n = Q*d - delta (add-back), n = d*B^k - delta "
             "(forced digit), n = Q*d + r with extreme r, equal leading limbs, d*2^k+-1, hostile. Non-trivial: d >= 2 and n >= d.",
        assumptions=COMMON_ASSUME,
    ),
    "C05": dict(
        bin="c05",
        lanes=lanes(quick_scale=1.0, thorough_scale=10.0,
                    miri=dict(light=0.0008, scale=0.003, widths=MIRI_W), miri_quick=False),
        primary_lane="checked",
        rule="Cases: shl / shr (overflowing, checked, saturating, wrapping, arithmetic_shr, and << >> <<= >>= for usize,u8,u16,"
             "u32,u64,isize,i8,i16,i32,i64 by value and by reference whenever the amount fits the type), rotations, and "
             "Uint-typed amounts of any magnitude. Grid: single-bit / all-ones / alphabet values x every amount in "
             "[0, BITS+64*LIMBS+1] at widths <= 257 (all bit positions at BITS<=64; all positions at <= 257 in the thorough "
             "tier), boundary amounts beyond, huge amounts up to usize::MAX, Uint amounts 2^64, 2^64+3, MAX. "
             "Non-trivial: value != 0 and amount != 0.",
        assumptions=COMMON_ASSUME + ["negative amounts of the signed operator overloads are outside the property and never generated"],
    ),
    "C06": dict(
        bin="c06",
        lanes=lanes(quick_scale=3.0, thorough_scale=40.0,
                    miri=dict(light=0.002, scale=0.003, widths=MIRI_W)),
        primary_lane="checked",
        rule="Cases: logic (! & | ^ in all shapes), count (leading/trailing zeros/ones, count_ones/zeros, bit_len, byte_len, "
             "reverse_bits, is_power_of_two, (checked_)next_power_of_two, most_significant_bits), index (bit, set_bit, byte, "
             "checked_byte for every index in [0, BITS+64] and huge indices). Values: single bits and single zeros at every "
             "position, runs of ones starting/ending at limb boundaries, boundary and hostile values. "
             "Non-trivial: value not in {0, MAX} or an index-addressed operation.",
        assumptions=COMMON_ASSUME,
    ),
    "C07": dict(
        bin="c07",
        lanes=lanes(quick_scale=2.0, thorough_scale=30.0,
                    miri=dict(light=0.002, scale=0.002, widths=MIRI_W), miri_quick=False),
        primary_lane="checked",
        rule="Cases: from.<T> for bool,u8..u128,usize,i8..i128,isize (try_from incl. error kind, bits field and wrapped payload; "
             "from; wrapping_from; saturating_from), to_prims (try_from by ref and value, to, wrapping_to, saturating_to for all "
             "13 targets incl. error payloads), uint_uint over a 14x14 width grid, limbs_slice (all *_from_limbs_slice and "
             "from_limbs for slice lengths 0..LIMBS+2). Sources: type MIN/MAX, +-2^k, +-(2^k+-1) around BITS and the type "
             "width, all 256 values of u8/i8, structured u128. The ValueNegative payload is only checked when BITS <= source "
             "width, as the property states. Non-trivial: source value not in {0, 1}.",
        assumptions=COMMON_ASSUME,
    ),
    "C14": dict(
        bin="c14",
        lanes=lanes(quick_scale=4.0, thorough_scale=60.0,
                    miri=dict(light=0.01, scale=0.0015), asan=True),
        primary_lane="checked",
        hooks_expected=["KNUTHN_FORCED", "KNUTHN_ADDBACK", "KNUTHN_STEP", "KNUTH_FORCED", "KNUTH_QZERO",
                        "KNUTH_ADDBACK_NOSHIFT", "KNUTH_ADDBACK_SHIFT", "KNUTH_QHIGH_NONZERO", "NX1_NORMALIZED", "NX1_SHIFT",
                        "NX2_NORMALIZED", "NX2_SHIFT", "D2X1_ADJ1", "D2X1_ADJ2", "D3X2_ADJ1", "D3X2_ADJ2", "RECIP2_C1",
                        "RECIP2_C2", "RECIP2_C3", "RECIP2_C4", "DIV_NUM_ZERO", "DIV_NUM_SHORT", "DIV_1X1", "DIV_NX1",
                        "DIV_NX2", "DIV_NXM"],
        rule="Cases at slice level: algorithms::div for every (numerator length, divisor length) in 1..=12 x 1..=12 with zero "
             "padding, div_nxm, div_nxm_normalized (numerator's top limbs below the divisor, incl. equal lengths), div_nx1/nx2 "
             "and their normalized forms, div_2x1 / div_3x2 (mg10 and ref twin of 2x1), reciprocal / reciprocal_2 (mg10, ref) "
             "for all 256 table rows; each strictly inside its documented + debug-asserted preconditions. div_3x2_ref is "
             "documented in its source as off by one and is only counted. Non-trivial: divisor or numerator >= 2 limbs "
             "(always true for the word-level kernels).",
        assumptions=COMMON_ASSUME + ["kernel preconditions are those documented in the source plus the kernel's own debug_assert!s; div_nxm_normalized additionally needs the numerator's top divisor.len() limbs below the divisor (otherwise the quotient has no representation)"],
    ),
    "C15": dict(
        bin="c15",
        lanes=lanes(quick_scale=10.0, thorough_scale=150.0,
                    miri=dict(light=0.01, scale=0.004)),
        primary_lane="checked",
        hooks_expected=["ADDMUL_TRIM_A_LO", "ADDMUL_TRIM_A_HI", "ADDMUL_TRIM_B_LO", "ADDMUL_TRIM_B_HI",
                        "ADDMUL_RET_EMPTY_OPERAND", "ADDMUL_RET_EMPTY_LHS", "ADDMUL_SWAP", "ADDMUL_FULL_ROW",
                        "ADDMUL_ROW_CARRY_OUT", "ADDMUL_SHORT_WINDOW", "ADDMUL_LHS_EXHAUSTED"],
        rule="Cases at slice level: addmul for every (accumulator, a, b) length combination in 0..=10^3, addmul_n, mul_nx1, "
             "addmul_nx1, submul_nx1, add_nx1, adc_n, sbb_n (lengths 0..=12), adc, sbb, carrying_add, borrowing_sub, "
             "shift_left/right_small for every amount 0..64, cmp on equal-length slices. Carry/borrow words are judged by "
             "conservation (result + word*2^(64N) equals the exact value). Non-trivial: at least two non-zero limbs overall.",
        assumptions=COMMON_ASSUME + ["length preconditions (`assume!`) are respected: violating them is UB in release builds and outside the property"],
    ),
}

TRUST = ("Trusted base: rustc/cargo, num-bigint as arithmetic reference, the hand-written oracle in the workload binary, "
         "the coverage hooks being add-only. Finite width list and sampled operands; sanitizer lanes see only reached code.")


LEVEL = {
    "C01": "add/sub/neg/abs_diff/Sum in every variant and operator shape vs BigUint at 32 widths; all pairs enumerated at BITS<=4",
    "C02": "mul variants, widening grid, inv_ring, Product vs BigUint with the addmul coverage hooks showing every trimming / short-window / carry arm was executed through the Uint API",
    "C03": "div_rem and all derived forms vs BigUint on constructive recipes for the add-back, forced-digit and reciprocal-correction paths; hook counters in the evidence state how many cases reached each path",
    "C05": "shift values and lost-bit flags, rotations, arithmetic shift, 10 integer-typed operator overloads and Uint amounts vs BigUint; every amount in [0, BITS+64*LIMBS+1] at widths <= 257",
    "C06": "bitwise logic, bit/byte access and counting vs the binary expansion; every index in [0, BITS+64]; single bits / single zeros at every position",
    "C07": "13 primitive sources and targets x 30 widths, 14x14 Uint-to-Uint grid, limb slices of every length 0..LIMBS+2, incl. error kinds and payloads, vs exact integer arithmetic",
    "C14": "every slice-level division kernel vs BigUint inside its documented preconditions, all 256 reciprocal table rows, all (numerator, divisor) length pairs 1..=12",
    "C15": "every slice-level arithmetic kernel vs BigUint with conservation oracles for carry/borrow words, all length combinations 0..=10 for addmul",
}
SANI = {
    "C01": "Miri (dev + release) in thorough",
    "C02": "Miri (dev + release) in thorough",
    "C03": "Miri shard in quick; Miri dev+release and AddressSanitizer in thorough",
    "C05": "Miri in thorough",
    "C06": "Miri shard in quick (raw byte view behind byte()); Miri dev+release in thorough",
    "C07": "Miri in thorough",
    "C14": "Miri shard in quick (unchecked indexing in div_nx1/div_nx2 and the reciprocal table); Miri dev+release and AddressSanitizer in thorough",
    "C15": "Miri shard in quick; Miri dev+release in thorough (`assume!` = unreachable_unchecked in release)",
}
MANIFEST_TEXT = {
    pid: dict(
        level_text="Reference-model monitoring of the real code: " + LEVEL[pid] + ". Quick ~10^6, thorough ~10^7-10^8 monitored cases; "
                   "canonical-form invariant on every produced Uint; debug-assertion and release builds both run. Exploration is the "
                   "honest level: the quantifier ranges over inputs and widths, which a monitor samples (enumerated sub-spaces are listed "
                   "in the evidence).",
        design_ref=f"DESIGN.md section 4 ({pid})",
        level_note=TRUST,
        technique="runtime reference-model monitor (independent BigUint oracle) over directed + hostile workloads, coverage hooks, "
                  "debug-assert and release lanes; sanitizer lanes: " + SANI[pid],
    )
    for pid in PROPS
}

_PENDING = "check under construction in this build round; will be claimed once its monitor is validated on the unchanged tree"
NOT_APPLICABLE = [dict(property_id=f"C{i:02d}", reason=_PENDING) for i in range(1, 21) if f"C{i:02d}" not in PROPS]
