"""Per-property configuration of the monitored workloads (lanes, budgets, rules)."""

COMMON_ASSUME = [
    "num-bigint 0.4.8 arithmetic is the reference for exact integer results (operands are built from raw limbs, never through ruint's num-bigint glue)",
    "widths are the finite list instantiated in the workload binary (see coverage.by_width); other widths are represented only by their class (LIMBS, BITS%64, BITS%8)",
    "a run shows the property held on the executions observed, not for all inputs",
]


def lanes(quick_scale=1.0, thorough_scale=30.0, miri=None, asan=False, memcheck=False, quick_shards=8,
          miri_quick=True):
    """Standard lane layout. `miri` = dict(light, scale, widths) or None.

    Light lanes (Miri, memcheck) thin the directed corpus at generation time with
    probability `light` and run `scale` times the random budget; every shard
    draws its own subset."""
    q = [dict(lane="checked", shards=quick_shards, scale=quick_scale),
         dict(lane="release", shards=quick_shards, scale=quick_scale)]
    t = [dict(lane="checked", shards=16, scale=thorough_scale),
         dict(lane="release", shards=16, scale=thorough_scale)]
    if miri:
        mq = dict(lane="miri", shards=2, watchdog=3600, max_seconds=60)
        mq.update(miri)
        if miri_quick:
            q.append(mq)
        mt = dict(mq)
        mt["shards"] = 8
        mt["max_seconds"] = 600
        mt["light"] = min(1.0, mq.get("light", 0.01) * 6)
        mt["scale"] = mq.get("scale", 0.01) * 6
        mt["watchdog"] = 14400
        t.append(mt)
        mr = dict(mt)
        mr["lane"] = "miri-release"
        mr["shards"] = 4
        t.append(mr)
    if asan:
        t.append(dict(lane="asan", shards=16, scale=max(1.0, thorough_scale / 4)))
    if memcheck:
        t.append(dict(lane="memcheck", shards=8, scale=0.05, light=0.05, watchdog=7200))
    return dict(quick=q, thorough=t)


PROPS = {
    "C01": dict(
        bin="c01",
        lanes=lanes(quick_scale=1.0, thorough_scale=40.0,
                    miri=dict(light=0.004, scale=0.002, widths=[0, 1, 7, 63, 64, 65, 128, 129, 256, 521]),
                    miri_quick=False),
        primary_lane="checked",
        rule="Cases are (operation group, width, operand tuple): a fixed directed corpus (all pairs at BITS<=4, "
             "boundary values against complements/negations/neighbours, carry and borrow chains over every limb range) "
             "plus seeded hostile pairs (limb alphabet, sparse limbs, 2^k+-1, complements). Each case checks every "
             "variant (overflowing/checked/saturating/wrapping, six operator shapes, abs_diff, Sum) against BigUint. "
             "Non-trivial: not all operands zero (sum: >= 2 non-zero terms).",
        assumptions=COMMON_ASSUME,
    ),
}

TRUST = ("Trusted base: rustc/cargo, num-bigint as arithmetic reference, the hand-written oracle in the workload binary, "
         "the coverage hooks being add-only. Finite width list and sampled operands; sanitizer lanes see only reached code.")

MANIFEST_TEXT = {
    "C01": dict(
        level_text="Reference-model monitoring: ~10^6 (quick) to ~5*10^7 (thorough) monitored operand tuples at 32 widths, every variant and operator shape compared with BigUint, canonical-form invariant on every result; all pairs enumerated at BITS<=4. Exploration is the right level: the quantifier is over inputs and widths, which a monitor can only sample.",
        design_ref="DESIGN.md section 4 (C01)",
        level_note=TRUST,
        technique="runtime reference-model monitor (BigUint oracle) over hostile + directed operand workloads; debug-assert and release lanes, Miri lane in thorough",
    ),
}

_PENDING = "check under construction in this build round; will be claimed once its monitor is validated on the unchanged tree"
NOT_APPLICABLE = [dict(property_id=f"C{i:02d}", reason=_PENDING) for i in range(1, 21) if f"C{i:02d}" not in PROPS]
