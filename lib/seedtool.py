#!/usr/bin/env python3
"""Bookkeeping for seeded breaking changes (/verif/seeded/<id>/).

  seedtool.py intake <agent_dir> <A|B> <seed_id> <property>   copy patch/demo/meta, verify them in a scratch worktree
  seedtool.py screen <seed_id> <slot> [tier]                  run the property's check against a slot worktree with the
                                                              patch applied (parallel screening; does not touch /repo)
  seedtool.py official <seed_id> [tier]                       git -C /repo apply; ./check <prop> <tier>; git checkout -- .
  seedtool.py table                                           print the catch table
"""
import json
import os
import re
import shutil
import subprocess
import sys
import time

ROOT = os.path.dirname(os.path.dirname(os.path.abspath(__file__)))
SEEDED = os.path.join(ROOT, "seeded")
ENV = dict(os.environ, CARGO_NET_OFFLINE="true", CARGO_TERM_COLOR="never")


def sh(cmd, cwd=None, timeout=3600, env=None):
    p = subprocess.run(cmd, cwd=cwd, shell=isinstance(cmd, str), stdout=subprocess.PIPE, stderr=subprocess.STDOUT, text=True,
                       timeout=timeout, env=env or ENV)
    return p.returncode, p.stdout


def slot_dir(slot):
    d = f"/tmp/slots/{slot}"
    if not os.path.exists(d):
        os.makedirs("/tmp/slots", exist_ok=True)
        rc, out = sh(["git", "-C", "/repo", "worktree", "add", "--detach", d, "HEAD", "-q"])
        assert rc == 0, out
        shutil.copy("/repo/Cargo.lock", d + "/Cargo.lock")
    return d


def slot_reset(d):
    head = sh(["git", "-C", "/repo", "rev-parse", "HEAD"])[1].strip()
    sh(["git", "-C", d, "checkout", "-q", "--detach", head])
    sh(["git", "-C", d, "checkout", "--", "."])
    sh(["git", "-C", d, "clean", "-fdq", "-e", "target", "-e", "Cargo.lock"])


def load_meta(sid):
    return json.load(open(os.path.join(SEEDED, sid, "meta.json")))


def save_meta(sid, m):
    json.dump(m, open(os.path.join(SEEDED, sid, "meta.json"), "w"), indent=1)


def intake(agent_dir, x, sid, prop):
    dst = os.path.join(SEEDED, sid)
    shutil.rmtree(dst, ignore_errors=True)
    os.makedirs(dst)
    shutil.copy(os.path.join(agent_dir, f"patch{x}.diff"), os.path.join(dst, "patch.diff"))
    shutil.copytree(os.path.join(agent_dir, f"demo{x}"), os.path.join(dst, "demo"), ignore=shutil.ignore_patterns("target"))
    note = open(os.path.join(agent_dir, f"meta{x}.txt")).read() if os.path.exists(os.path.join(agent_dir, f"meta{x}.txt")) else ""
    open(os.path.join(dst, "author_notes.txt"), "w").write(note)
    # ---- verify in a scratch worktree
    d = slot_dir(os.environ.get("SEED_VERIFY_SLOT", "verify"))
    slot_reset(d)
    ver = {}
    profile = ""
    rc, out = sh(["git", "-C", d, "apply", os.path.join(dst, "patch.diff")])
    ver["patch_applies"] = rc == 0
    if rc != 0:
        ver["apply_output"] = out[-500:]
    demo = os.path.join(d, "demo_seed")
    shutil.rmtree(demo, ignore_errors=True)
    shutil.copytree(os.path.join(dst, "demo"), demo)
    if ver["patch_applies"]:
        rc, out = sh("cargo build --offline 2>&1 | tail -3", cwd=d)
        ver["builds"] = "Finished" in out
        rc, out = sh("cargo test --workspace --no-fail-fast --offline 2>&1 | grep -E '^test result|FAILED|failed' ", cwd=d, timeout=3000)
        passed = sum(int(x) for x in re.findall(r"(\d+) passed", out))
        failed = sum(int(x) for x in re.findall(r"(\d+) failed", out))
        ver["tests_with_patch"] = dict(passed=passed, failed=failed)
        rc, out = sh("cargo run --offline 2>&1 | tail -15", cwd=demo, timeout=1200)
        rc2, _ = sh("cargo run --offline -q >/dev/null 2>&1", cwd=demo, timeout=1200)
        if rc2 == 0 and "--release" in note:
            # build-profile dependent change: the author says the demo has to run in the release profile
            profile = "--release "
            rc, out = sh("cargo run --release --offline 2>&1 | tail -15", cwd=demo, timeout=1800)
            rc2, _ = sh("cargo run --release --offline -q >/dev/null 2>&1", cwd=demo, timeout=1800)
        if rc2 == 0 and "miri" in note.lower():
            # memory-safety-only change: values stay right, the demo is judged by the UB interpreter
            profile = "MIRI"
            rc, out = sh("cargo +nightly miri run --offline 2>&1 | tail -25", cwd=demo, timeout=3000)
            rc2, _ = sh("cargo +nightly miri run --offline -q >/dev/null 2>&1", cwd=demo, timeout=3000)
        ver["demo_profile"] = "miri" if profile == "MIRI" else ("release" if profile else "dev")
        ver["demo_with_patch_exit"] = rc2
        ver["demo_with_patch_tail"] = out[-600:]
    slot_reset(d)
    shutil.rmtree(demo, ignore_errors=True)
    shutil.copytree(os.path.join(dst, "demo"), demo)
    if profile == "MIRI":
        rc2, _ = sh("cargo +nightly miri run --offline -q >/dev/null 2>&1", cwd=demo, timeout=3000)
    else:
        rc2, _ = sh(f"cargo run {profile}--offline -q >/dev/null 2>&1", cwd=demo, timeout=1800)
    ver["demo_without_patch_exit"] = rc2
    shutil.rmtree(demo, ignore_errors=True)
    ok = (ver.get("patch_applies") and ver.get("builds") and ver.get("tests_with_patch", {}).get("failed") == 0
          and ver.get("tests_with_patch", {}).get("passed", 0) >= 111 and ver.get("demo_with_patch_exit") not in (0, None)
          and ver.get("demo_without_patch_exit") == 0)
    files = sorted(set(re.findall(r"^\+\+\+ b/(\S+)", open(os.path.join(dst, "patch.diff")).read(), re.M)))
    m = dict(id=sid, property=prop, files_changed=files, valid=bool(ok), verification=ver,
             needs_to_manifest=first_para(note, ("manifest", "trigger", "needs")),
             what_was_run=["git apply patch.diff in a scratch worktree of /repo HEAD", "cargo build --offline",
                           "cargo test --workspace --no-fail-fast --offline", "demo: cargo run [--release] --offline with and without the patch (profile recorded in verification.demo_profile)"],
             results={})
    save_meta(sid, m)
    print(sid, "valid" if ok else "INVALID", json.dumps(ver)[:600])
    return ok


def first_para(note, keys):
    lines = [l.strip() for l in note.splitlines() if l.strip()]
    hit = [l for l in lines if any(k in l.lower() for k in keys)]
    return " ".join(hit[:4])[:900] if hit else " ".join(lines[:4])[:900]


def parse_check_output(out):
    viols = re.findall(r"^VIOLATION property=(\S+) replay=(\S+)", out, re.M)
    summ = re.search(r"^SUMMARY .*", out, re.M)
    sigs = re.findall(r"^\[violation\] (.+?) x(\d+) lanes=", out, re.M)
    return dict(violation_lines=len(viols), signatures=[f"{s} x{n}" for s, n in sigs][:12], summary=summ.group(0) if summ else None,
                inconclusive=bool(re.search(r"^INCONCLUSIVE", out, re.M)))


def screen(sid, slot, tier="quick", prop=None):
    m = load_meta(sid)
    prop = prop or m["property"]
    d = slot_dir(slot)
    slot_reset(d)
    rc, out = sh(["git", "-C", d, "apply", os.path.join(SEEDED, sid, "patch.diff")])
    assert rc == 0, out
    t = time.time()
    env = dict(ENV, VERIF_REPO=d, VERIF_SLOT=slot)
    rc, out = sh([os.path.join(ROOT, "check"), prop, tier], cwd=ROOT, timeout=6 * 3600, env=env)
    r = parse_check_output(out)
    r.update(exit=rc, wall_s=round(time.time() - t), how=f"screen: VERIF_REPO={d} ./check {prop} {tier} (patch applied in a slot worktree)")
    m["results"][f"screen:{prop}:{tier}"] = r
    save_meta(sid, m)
    slot_reset(d)
    print(sid, prop, tier, "CAUGHT" if rc == 1 else ("INCONCLUSIVE" if rc == 2 else "MISSED"), r["signatures"][:4], f"{r['wall_s']}s")
    return rc


def screenpatch(patch, prop, slot, tier="quick"):
    """Ad-hoc screening of a patch file that is not (yet) a seeded change."""
    d = slot_dir(slot)
    slot_reset(d)
    rc, out = sh(["git", "-C", d, "apply", patch])
    assert rc == 0, out
    t = time.time()
    env = dict(ENV, VERIF_REPO=d, VERIF_SLOT=slot)
    rc, out = sh([os.path.join(ROOT, "check"), prop, tier], cwd=ROOT, timeout=6 * 3600, env=env)
    r = parse_check_output(out)
    slot_reset(d)
    print(os.path.basename(patch), prop, tier, "CAUGHT" if rc == 1 else ("INCONCLUSIVE" if rc == 2 else "MISSED"), r["signatures"][:4],
          f"{round(time.time() - t)}s", flush=True)
    return rc


def official(sid, tier="quick", prop=None):
    m = load_meta(sid)
    prop = prop or m["property"]
    rc, out = sh(["git", "-C", "/repo", "status", "--porcelain", "--untracked-files=no"])
    assert out.strip() == "", "/repo has local changes: " + out
    rc, out = sh(["git", "-C", "/repo", "apply", os.path.join(SEEDED, sid, "patch.diff")])
    assert rc == 0, out
    t = time.time()
    try:
        rc, out = sh([os.path.join(ROOT, "check"), prop, tier], cwd=ROOT, timeout=6 * 3600)
    finally:
        sh(["git", "-C", "/repo", "checkout", "--", "."])
    r = parse_check_output(out)
    r.update(exit=rc, wall_s=round(time.time() - t),
             how=f"git -C /repo apply patch.diff; ./check {prop} {tier}; git -C /repo checkout -- .")
    m["results"][f"official:{prop}:{tier}"] = r
    save_meta(sid, m)
    print(sid, prop, tier, "CAUGHT" if rc == 1 else ("INCONCLUSIVE" if rc == 2 else "MISSED"), r["signatures"][:4], f"{r['wall_s']}s")
    return rc


def table():
    rows = []
    for sid in sorted(os.listdir(SEEDED)):
        mp = os.path.join(SEEDED, sid, "meta.json")
        if not os.path.exists(mp):
            continue
        m = json.load(open(mp))
        res = m.get("results", {})
        cells = []
        for k, r in sorted(res.items()):
            cells.append(f"{k}={'caught' if r['exit'] == 1 else ('inconclusive' if r['exit'] == 2 else 'missed')}")
        rows.append((sid, m["property"], "valid" if m.get("valid") else "invalid", ",".join(m.get("files_changed", [])), "; ".join(cells)))
    for r in rows:
        print(" | ".join(r))


def table_md():
    """Markdown table for DESIGN.md: which check caught which seeded change (first signature of each run)."""
    print("| change | files changed | demo profile | caught by (check tier: first signatures) | missed by |")
    print("|---|---|---|---|---|")
    for sid in sorted(os.listdir(SEEDED)):
        mp = os.path.join(SEEDED, sid, "meta.json")
        if not os.path.exists(mp):
            continue
        m = json.load(open(mp))
        caught, missed = [], []
        for k, r in sorted(m.get("results", {}).items()):
            how, prop, tier = k.split(":")
            label = f"{prop} {tier}" + (" (applied to /repo)" if how == "official" else "")
            if r["exit"] == 1:
                sigs = [re.sub(r" x\d+$", "", x).split("|", 1)[1].replace("|", " / ") for x in r.get("signatures", [])[:2]]
                caught.append(f"{label}: `" + "`, `".join(sigs) + "`")
            elif r["exit"] == 0:
                missed.append(label)
            else:
                missed.append(label + " (inconclusive)")
        files = ", ".join(f"`{f.replace('src/', '')}`" for f in m.get("files_changed", []))
        print(f"| {sid} | {files} | {m.get('verification', {}).get('demo_profile', 'dev')} | " + "; ".join(caught) + " | " + "; ".join(missed) + " |")


if __name__ == "__main__":
    cmd = sys.argv[1]
    if cmd == "table_md":
        table_md()
        sys.exit(0)
    if cmd == "intake":
        sys.exit(0 if intake(*sys.argv[2:6]) else 1)
    elif cmd == "screen":
        sys.exit(screen(*sys.argv[2:]))
    elif cmd == "official":
        sys.exit(official(*sys.argv[2:]))
    elif cmd == "screenpatch":
        sys.exit(screenpatch(*sys.argv[2:]))
    elif cmd == "table":
        table()
