"""Compile-probe monitors: generated programs are compiled against /repo's working
tree; the compiler's JSON diagnostics and the programs' output are the observed
events.  Used by C04 (ill-formed (BITS, LIMBS) types) and C19 (uint! literals)."""
import concurrent.futures as cf
import json
import os
import random
import shutil
import subprocess
import time

REPO = "/repo"

FEATURES = ["std", "arbitrary", "proptest", "quickcheck", "rand", "rand-09", "num-traits", "serde", "rlp", "borsh", "bytemuck"]

CARGO_TOML = """[package]
name = "{name}"
version = "0.0.0"
edition = "2021"
publish = false
autobins = true

[workspace]

[dependencies]
ruint = {{ path = "{repo}", features = {features} }}
{extra_deps}

[profile.dev]
opt-level = 0
debug = 0
incremental = false
"""

EXTRA_DEPS = """num-traits = "0.2"
serde_json = "1"
rlp = "0.5"
borsh = "1.5"
arbitrary = "1"
proptest = "1"
quickcheck = "1"
rand-09 = { version = "0.9", package = "rand" }
bytemuck = "1.13"
"""


def make_crate(root, name, bins, ctx, with_deps):
    """bins: dict name -> source text."""
    shutil.rmtree(root, ignore_errors=True)
    os.makedirs(os.path.join(root, "src", "bin"))
    os.makedirs(os.path.join(root, ".cargo"))
    feats = FEATURES if with_deps else ["std"]
    with open(os.path.join(root, "Cargo.toml"), "w") as f:
        f.write(CARGO_TOML.format(name=name, repo=ctx.get("REPO", "/repo"), features=json.dumps(feats), extra_deps=EXTRA_DEPS if with_deps else ""))
    with open(os.path.join(root, ".cargo", "config.toml"), "w") as f:
        f.write("[net]\noffline = true\n")
    shutil.copy(os.path.join(ctx.get("HARNESS", os.path.join(ctx["ROOT"], "harness")), "Cargo.lock"), os.path.join(root, "Cargo.lock"))
    for b, src in bins.items():
        with open(os.path.join(root, "src", "bin", b + ".rs"), "w") as f:
            f.write(src)


def cargo_build(root, target_dir, ctx, timeout=3600, release=False):
    """Returns (artifacts: bin -> exe path, diags: bin -> [diag], raw_rc, stderr_tail)."""
    e = ctx["env_base"]()
    e["RUSTFLAGS"] = "--cfg recmo_uint_verif"
    e["CARGO_TARGET_DIR"] = target_dir
    cmd = ["cargo", "build", "--offline", "--bins", "--keep-going", "--message-format=json"] + (["--release"] if release else [])
    p = subprocess.run(cmd, cwd=root, env=e, stdout=subprocess.PIPE, stderr=subprocess.PIPE, text=True, timeout=timeout)
    arts, diags = {}, {}
    for line in p.stdout.splitlines():
        try:
            o = json.loads(line)
        except Exception:
            continue
        if o.get("reason") == "compiler-artifact" and o.get("executable") and "bin" in o["target"].get("kind", []):
            arts[o["target"]["name"]] = o["executable"]
        elif o.get("reason") == "compiler-message":
            tname = o.get("target", {}).get("name")
            msg = o.get("message", {})
            if msg.get("level") == "error":
                diags.setdefault(tname, []).append(msg)
    return arts, diags, p.returncode, p.stderr[-3000:]


def run_bin(exe, timeout=60):
    try:
        p = subprocess.run([exe], stdout=subprocess.PIPE, stderr=subprocess.PIPE, text=True, timeout=timeout)
        return p.returncode, p.stdout, p.stderr[-800:]
    except subprocess.TimeoutExpired:
        return -999, "", "timeout"


# =========================================================================== C04 (c): ill-formed types

CONTROL_PAIR = (64, 1)
ILL_PAIRS = [(64, 2), (65, 1), (63, 2), (0, 1), (1, 0), (64, 0), (128, 1), (129, 2), (256, 5)]

# name -> (expression producing `Shown`, needs the dependency-rich crate)
# Each expression evaluates to Option<String>: Some(limbs) if a value of type T was obtained.
def ill_ctors(bits, limbs):
    nbytes = (bits + 7) // 8
    c = {}
    v = lambda e: f"Some(show({e}))"
    o = lambda e: f"({e}).map(show)"
    r = lambda e: f"match {e} {{ Ok(x) => Some(show(x)), Err(_) => None }}"
    # conversions whose error carries a wrapped value of type T: that is an obtained value too
    rw = lambda e: (f"match {e} {{ Ok(x) => Some(show(x)), Err(ruint::ToUintError::ValueTooLarge(_, x)) | "
                    f"Err(ruint::ToUintError::ValueNegative(_, x)) => Some(show(x)), Err(_) => None }}")
    core = {
        "zero": v("T::ZERO"), "one": v("T::ONE"), "min": v("T::MIN"), "max": v("T::MAX"),
        "bits_zero": v("ruint::Bits::<BITS, LIMBS>::ZERO.into_inner()"),
        "default": v("T::default()"),
        "from_limbs": v("T::from_limbs([0u64; LIMBS])"),
        "from_limbs_slice": v("T::from_limbs_slice(&[])"),
        "from_u64": v("T::from(0u64)"),
        "from_str": r('"0".parse::<T>()'),
    }
    more = {
        "from_limbs_max": v("T::from_limbs([u64::MAX; LIMBS])"),
        "checked_from_limbs_slice": o("T::checked_from_limbs_slice(&[0])"),
        "wrapping_from_limbs_slice": v("T::wrapping_from_limbs_slice(&[1, 2, 3])"),
        "overflowing_from_limbs_slice": v("T::overflowing_from_limbs_slice(&[1]).0"),
        "saturating_from_limbs_slice": v("T::saturating_from_limbs_slice(&[1, 2, 3, 4, 5, 6])"),
        "try_from_u64": rw("T::try_from(1u64)"),
        "try_from_u128": rw("T::try_from(1u128 << 100)"),
        "try_from_i32": rw("T::try_from(-1i32)"),
        "try_from_bool": rw("T::try_from(true)"),
        "wrapping_from_u64": v("T::wrapping_from(u64::MAX)"),
        "saturating_from_u64": v("T::saturating_from(u64::MAX)"),
        "from_f64": v("T::from(1.0f64)"),
        "try_from_f64": rw("T::try_from(3.5f64)"),
        "saturating_from_f64": v("T::saturating_from(1e300f64)"),
        "wrapping_from_f32": v("T::wrapping_from(2.5f32)"),
        "from_uint": v("T::from(ruint::Uint::<8, 1>::from(5u8))"),
        "wrapping_from_uint": v("T::wrapping_from(ruint::Uint::<256, 4>::MAX)"),
        "saturating_from_uint": v("T::saturating_from(ruint::Uint::<256, 4>::MAX)"),
        "uint_to": v("ruint::Uint::<8, 1>::from(5u8).to::<T>()"),
        "uint_wrapping_to": v("ruint::Uint::<256, 4>::MAX.wrapping_to::<T>()"),
        "uint_saturating_to": v("ruint::Uint::<256, 4>::MAX.saturating_to::<T>()"),
        "from_str_radix": r('T::from_str_radix("0", 10)'),
        "from_str_hex": r('"0x1".parse::<T>()'),
        "from_base_le": r("T::from_base_le(10, [1u64])"),
        "from_base_be": r("T::from_base_be(10, [1u64])"),
        "from_be_bytes": v(f"T::from_be_bytes::<{nbytes}>([0u8; {nbytes}])"),
        "from_le_bytes": v(f"T::from_le_bytes::<{nbytes}>([0u8; {nbytes}])"),
        "from_be_slice": v("T::from_be_slice(&[])"),
        "from_le_slice": v("T::from_le_slice(&[1])"),
        "try_from_be_slice": o("T::try_from_be_slice(&[])"),
        "try_from_le_slice": o("T::try_from_le_slice(&[1])"),
        "approx_pow2": o("T::approx_pow2(0.0)"),
        "random": v("T::random()"),
        "random_with": v("T::random_with(&mut rand_09::rng())"),
        "rand_distr": v("{ use rand_09::Rng; rand_09::rng().random::<T>() }"),
        "arbitrary": r("{ use arbitrary::Arbitrary; T::arbitrary(&mut arbitrary::Unstructured::new(&[0xffu8; 64])) }"),
        "proptest": v("{ use proptest::{arbitrary::any, strategy::{Strategy, ValueTree}, test_runner::TestRunner}; "
                      "any::<T>().new_tree(&mut TestRunner::deterministic()).unwrap().current() }"),
        "quickcheck": v("{ use quickcheck::Arbitrary; T::arbitrary(&mut quickcheck::Gen::new(10)) }"),
        "num_zero": v("<T as num_traits::Zero>::zero()"),
        "num_one": v("<T as num_traits::One>::one()"),
        "num_max_value": v("<T as num_traits::Bounded>::max_value()"),
        "num_from_u64": o("<T as num_traits::FromPrimitive>::from_u64(1)"),
        "num_from_str_radix": r('<T as num_traits::Num>::from_str_radix("1", 10)'),
        "serde_json": r('serde_json::from_str::<T>("\\"0x0\\"")'),
        "rlp": r("rlp::decode::<T>(&[0x01])"),
        "borsh": r(f"borsh::from_slice::<T>(&[0u8; {nbytes}])"),
    }
    return core, more


POD_FORBIDDEN = [(1, 1), (7, 1), (63, 1), (65, 2), (100, 2), (160, 3), (200, 4), (255, 4), (257, 5), (1000, 16)]

POD_TEMPLATE = """#![allow(unused, clippy::all)]
fn need<T: bytemuck::Pod>() {{}}
fn main() {{
    need::<ruint::Uint<{bits}, {limbs}>>();
    let v: ruint::Uint<{bits}, {limbs}> = bytemuck::cast([u64::MAX; {limbs}]);
    println!("VALUE {{:?}}", v.as_limbs());
}}
"""

ILL_TEMPLATE = """#![allow(unused, clippy::all)]
const BITS: usize = {bits};
const LIMBS: usize = {limbs};
type T = ruint::Uint<BITS, LIMBS>;
fn show(v: T) -> String {{ format!("{{:?}}", v.as_limbs()) }}
fn main() {{
    let r: Option<String> = {expr};
    match r {{
        Some(s) => println!("VALUE {{}}", s),
        None => println!("NOVALUE"),
    }}
}}
"""


def run_illformed(tier, ctx):
    """Returns (evaluations, distinct, samples, violations{sig: rec}, inconclusive[], detail).
    The programs are built and run in the dev profile and again in the release profile: a rejection that only
    exists as a debug assertion protects nobody who builds with --release."""
    ev, distinct, samples, viol, inc, detail = _run_illformed_profile(tier, ctx, False)
    ev2, distinct2, samples2, viol2, inc2, detail2 = _run_illformed_profile(tier, ctx, True)
    for sig, v in viol2.items():
        t = viol.setdefault(sig, dict(count=0, first=[], lane="probe"))
        t["count"] += v["count"]
        t["first"] = (t["first"] + v["first"])[:3]
    detail["illformed_release_profile"] = {k: detail2[k] for k in ("illformed_bins", "illformed_outcomes", "illformed_by_pair",
                                                                    "illformed_control_programs", "illformed_control_compiled")}
    return ev + ev2, distinct, samples + samples2[:2], viol, inc + [f"release:{i}" for i in inc2], detail


def _run_illformed_profile(tier, ctx, release):
    root = os.path.join(ctx["WORK"], "probe-illformed")
    target = os.path.join(ctx.get("TARGET", os.path.join(ctx["ROOT"], "target")), "probe-illformed")
    bins = {}
    meta = {}
    for (b, l) in ILL_PAIRS:
        core, more = ill_ctors(b, l)
        ctors = dict(core)
        if tier == "thorough":
            ctors.update(more)
        else:
            # quick: the core list everywhere plus the full list on two representative pairs
            if (b, l) in ((64, 2), (65, 1)):
                ctors.update(more)
        for cname, expr in ctors.items():
            name = f"ill_{b}_{l}_{cname}"
            bins[name] = ILL_TEMPLATE.format(bits=b, limbs=l, expr=expr)
            meta[name] = (b, l, cname)
    # marker impls that assert "every bit pattern of the storage is a value": a width whose top limb has
    # padding bits must not be bytemuck::Pod (a safe cast would then produce a non-canonical value)
    for (b, l) in POD_FORBIDDEN:
        name = f"ill_{b}_{l}_pod_impl"
        bins[name] = POD_TEMPLATE.format(bits=b, limbs=l)
        meta[name] = (b, l, "pod_impl")
    pod_controls = {}
    for (b, l) in ((64, 1), (256, 4)):
        name = f"ctlpod_{b}_{l}"
        bins[name] = POD_TEMPLATE.format(bits=b, limbs=l)
        pod_controls[name] = f"pod_impl({b},{l})"
    # positive control: the same programs on a well-formed pair must compile, otherwise a
    # compile error above could be the probe's own fault
    controls = {}
    core, more = ill_ctors(*CONTROL_PAIR)
    for cname, expr in {**core, **more}.items():
        name = f"ctl_{cname}"
        bins[name] = ILL_TEMPLATE.format(bits=CONTROL_PAIR[0], limbs=CONTROL_PAIR[1], expr=expr)
        controls[name] = cname
    make_crate(root, "probe_illformed", bins, ctx, with_deps=True)
    t = time.time()
    arts, diags, rc, tail = cargo_build(root, target, ctx, release=release)
    ctx["log"](f"[probe] illformed ({'release' if release else 'dev'} profile): {len(bins)} bins (incl. controls), {len(arts)} linked, build {time.time() - t:.1f}s")
    inconclusive = []
    if not arts and not diags:
        inconclusive.append("illformed-probe-build-produced-nothing: " + tail[-300:])
    violations, samples = {}, []
    outcomes = dict(compile_error=0, runtime_panic=0, no_value=0, value=0, other=0)
    by_pair = {}

    def judge(name):
        b, l, cname = meta[name]
        if name not in arts:
            msgs = diags.get(name, [])
            first = msgs[0]["message"] if msgs else "(no artifact)"
            return name, "compile_error", first[:200]
        rc_, out, err = run_bin(arts[name])
        if out.startswith("VALUE"):
            return name, "value", out.strip()[:200]
        if out.startswith("NOVALUE"):
            return name, "no_value", "constructor returned None/Err"
        if rc_ == 101:
            line = [x for x in err.splitlines() if "panicked" in x or "Uint" in x]
            return name, "runtime_panic", (line[-1] if line else err[-200:])[:200]
        return name, "other", f"rc={rc_} {err[-200:]}"

    controls.update(pod_controls)
    control_failed = sorted(c for n, c in controls.items() if n not in arts)
    for c in control_failed:
        inconclusive.append(f"illformed-control-does-not-compile:{c}")
    with cf.ThreadPoolExecutor(max_workers=16) as ex:
        results = list(ex.map(judge, sorted(meta)))
    codes = {}
    for name in meta:
        for mmsg in diags.get(name, [])[:1]:
            code = (mmsg.get("code") or {}).get("code") or "none"
            codes[code] = codes.get(code, 0) + 1
    for name, outcome, detail in results:
        b, l, cname = meta[name]
        outcomes[outcome] += 1
        by_pair.setdefault(f"({b},{l})", {}).setdefault(outcome, 0)
        by_pair[f"({b},{l})"][outcome] += 1
        rec = dict(property="C04", op="illformed", pair=[b, l], constructor=cname, outcome=outcome, detail=detail,
                   program=bins[name], profile="release" if release else "dev")
        if outcome == "value":
            sig = f"C04|illformed|{cname}"
            v = violations.setdefault(sig, dict(count=0, first=[], lane="probe"))
            v["count"] += 1
            if len(v["first"]) < 3:
                r2 = dict(rec)
                r2.update(signature=sig, kind="ill-formed type has an obtainable value",
                          expected="compile error or panic", observed=detail, lane="probe", replay_kind="illformed")
                v["first"].append(r2)
        elif outcome == "other":
            inconclusive.append(f"illformed:{name}:{detail[:80]}")
        if len(samples) < 6 and outcome in ("compile_error", "runtime_panic"):
            s = dict(rec)
            s.pop("program")
            s["verdict"] = "held"
            samples.append(s)
    detail = dict(illformed_bins=len(meta), illformed_outcomes=outcomes, illformed_by_pair=by_pair,
                  illformed_pairs=[list(p) for p in ILL_PAIRS], illformed_first_error_codes=codes,
                  illformed_control_pair=list(CONTROL_PAIR), illformed_control_programs=len(controls),
                  illformed_control_compiled=len(controls) - len(control_failed))
    return len(meta), len(meta), samples, violations, inconclusive, detail


def replay_illformed(rec, ctx):
    root = os.path.join(ctx["ROOT"], "build", "replay-illformed")
    target = os.path.join(ctx.get("TARGET", os.path.join(ctx["ROOT"], "target")), "probe-illformed")
    ctx2 = dict(ctx)
    ctx2["WORK"] = os.path.dirname(root)
    make_crate(root, "probe_illformed", {"replay": rec["program"]}, ctx2, with_deps=True)
    arts, diags, rc, tail = cargo_build(root, target, ctx2, release=rec.get("profile") == "release")
    if "replay" not in arts:
        print("replay: rejected at compile time:", (diags.get("replay") or [{}])[0].get("message", "")[:200])
        return 0
    rc_, out, err = run_bin(arts["replay"])
    print(f"replay: rc={rc_} stdout={out.strip()[:200]}")
    return 1 if out.startswith("VALUE") else 0


# =========================================================================== C19: uint! literals

def limbs_of(v, bits):
    n = (bits + 63) // 64
    return [(v >> (64 * i)) & (2**64 - 1) for i in range(n)]


def render_digits(rng, v, base, min_digits=1):
    digs = "0123456789abcdef"
    s = ""
    x = v
    while x:
        s = digs[x % base] + s
        x //= base
    s = s or "0"
    if len(s) < min_digits:
        s = "0" * (min_digits - len(s)) + s
    if base == 16 and rng.random() < 0.5:
        s = s.upper()
    return s


def decorate(rng, digits, style):
    """Insert underscores / leading zeros where legal. Returns literal body without prefix."""
    if style == 0:
        return digits
    if style == 1:
        return "0" * rng.randint(1, 4) + digits
    out = ""
    for i, ch in enumerate(digits):
        out += ch
        if i + 1 < len(digits) and rng.random() < 0.25:
            out += "_" * rng.randint(1, 2)
    if style == 3:
        # underscores right after the radix prefix (legal Rust: 0x_1f); callers only use this with a prefix
        out = "_" * rng.randint(1, 2) + out
    return out


PREFIX = {10: "", 16: "0x", 8: "0o", 2: "0b"}


def gen_positive(rng, n, tier):
    """List of dicts(kind U/B, bits, base, literal, value, digits)."""
    cases = []
    widths = [0, 1, 2, 7, 8, 9, 16, 31, 32, 33, 63, 64, 65, 100, 127, 128, 129, 160, 192, 255, 256, 257, 320, 384, 512, 521, 1024,
              2048, 4096]
    if tier == "thorough":
        widths += [3, 4, 5, 12, 24, 48, 57, 60, 72, 96, 130, 200, 250, 300, 448, 500, 768, 1000, 1088, 3000, 4095]
    while len(cases) < n:
        bits = rng.choice(widths) if rng.random() < 0.85 else rng.randint(0, 4096)
        base = rng.choice([10, 16, 8, 2])
        kind = "U" if rng.random() < 0.8 else "B"
        top = 2**bits - 1
        r = rng.random()
        if r < 0.12 and bits > 64:
            # digit prefixes that land on a limb boundary: the running value of a digit-by-digit parser passes
            # through 2^(64 j) + d (d around 0 .. base) and then takes t more digits
            j = rng.randint(1, (bits - 1) // 64)
            pfx = 2**(64 * j) + rng.randint(-3, base + 2)
            t = rng.choice([0, 0, 1, 2, 3, rng.randint(0, 40)])
            v = pfx * base**t + (rng.randrange(base**t) if t else 0)
            if v > top:
                v = min(top, pfx)
        elif r < 0.2:
            v = top
        elif r < 0.3:
            v = 0
        elif r < 0.4:
            v = min(top, 1)
        elif r < 0.55:
            v = rng.getrandbits(bits) if bits else 0
        elif r < 0.7:
            k = rng.randint(0, max(bits - 1, 0))
            v = min(top, (1 << k) - (1 if rng.random() < 0.5 else 0))
        elif r < 0.8:
            v = top - min(top, rng.randint(0, 3))
        else:
            k = rng.randint(0, bits) if bits else 0
            v = rng.getrandbits(k) if k else 0
        digits = render_digits(rng, v, base)
        if base == 2 and len(digits) > 700:
            continue
        body = decorate(rng, digits, rng.randint(0, 3 if base != 10 else 2))
        # hexadecimal Bits literals need the separating underscore; decimal digits ending in e/E would lex as floats
        sep = rng.choice(["_", "_", "_", "__"]) if (kind == "B" and base == 16) or rng.random() < 0.7 else ""
        if base == 16 and sep == "" and body[-1] in "bB":
            sep = "_"
        lit = f"{PREFIX[base]}{body}{sep}{kind}{bits}"
        # rustc's lexer: a decimal/hex literal directly followed by U/B is a literal with suffix; `e` in hex is a digit.
        cases.append(dict(kind=kind, bits=bits, base=base, literal=lit, value=v, digits=digits))
    return cases


CONTEXTS = [
    "{lit}", "({lit})", "[{lit}][0]", "{{ {lit} }}", "vec![{lit}][0]", "std::convert::identity({lit})", "Some({lit}).unwrap()",
    "(({lit}),).0", "[[{lit}]][0][0]", "{{ let t = ({lit}, 1u8); t.0 }}", "*(&{lit})", "if true {{ {lit} }} else {{ {lit} }}",
    "std::iter::once({lit}).next().unwrap()", "(|| {lit})()",
]

POS_HEADER = """#![allow(unused, clippy::all)]
use ruint::{uint, Bits, Uint};
fn show<const B: usize, const L: usize>(id: u32, v: Uint<B, L>, digits: &str, radix: u64) {
    let rt = Uint::<B, L>::from_str_radix(digits, radix);
    println!("L {} {} {} {:?} {}", id, B, L, v.as_limbs(), rt == Ok(v));
}
fn showb<const B: usize, const L: usize>(id: u32, v: Bits<B, L>, digits: &str, radix: u64) {
    let rt = Uint::<B, L>::from_str_radix(digits, radix);
    println!("L {} {} {} {:?} {}", id, B, L, v.as_limbs(), rt == Ok(v.into_inner()));
}
fn showf<const B: usize, const L: usize>(id: u32, k: u32, v: Uint<B, L>) {
    println!("F {} {} {} {} {:?}", id, k, B, L, v.as_limbs());
}
fn showfb<const B: usize, const L: usize>(id: u32, k: u32, v: Bits<B, L>) {
    println!("F {} {} {} {} {:?}", id, k, B, L, v.as_limbs());
}
// literals that reach uint! through a macro_rules fragment arrive inside an invisible (None-delimited) group
macro_rules! fwd_expr { ($e:expr) => { uint!($e) }; }
macro_rules! fwd_lit { ($l:literal) => { uint!($l) }; }
macro_rules! fwd_tt { ($($t:tt)*) => { uint!($($t)*) }; }
macro_rules! fwd_deep { ($e:expr) => { fwd_expr!([($e)][0]) }; }
fn main() {
"""

FORWARDERS = ["fwd_expr", "fwd_lit", "fwd_tt", "fwd_deep"]

PASS_THROUGH = [
    ("123u8", "123u8"), ("0xffu64", "0xffu64"), ("1e5", "1e5"), ("1.5f32", "1.5f32"), ("b'U'", "b'U'"), ('"7U8"', '"7U8"'),
    ("0xAB12", "0xAB12"), ("0xB8", "0xB8"), ("0x1B256", "0x1B256"), ("'B'", "'B'"), ("7usize", "7usize"), ("0b1010u16", "0b1010u16"),
    ("0o17i64", "0o17i64"), ("1_000i32", "1_000i32"), ("2.0e3f64", "2.0e3f64"), ('b"1U8"', 'b"1U8"'), ('r"3B8"', 'r"3B8"'),
    ("0xdead_beefu32", "0xdead_beefu32"), ("0xBB", "0xBB"), ("0xABCB16", "0xABCB16"), ("true", "true"), ("0x0B0", "0x0B0"),
]


def gen_hex_passthrough(rng, n):
    """Plain hexadecimal integer literals that merely END in B<decimal digits> with no underscore right
    before that B (underscores and further B's anywhere else): by the documented rule they are ordinary
    integers and must pass through unchanged."""
    out = []
    while len(out) < n:
        head = "".join(rng.choice("0123456789abcdefABCDEF__BB") for _ in range(rng.randint(1, 14)))
        if head.startswith("_") is False and rng.random() < 0.3:
            head = head + "_B" + rng.choice("0123456789abcdefB")
        tail = "B" + "".join(rng.choice("0123456789") for _ in range(rng.randint(1, 4)))
        body = head + tail
        if body[len(head) - 1] == "_" or body.startswith("_") and False:
            continue
        if not any(ch in "0123456789abcdefABCDEF" for ch in head):
            continue
        digits = body.replace("_", "")
        if len(digits) > 31:
            continue
        # a `U` never occurs, so the only suffix candidate is the last B; it must not be preceded by `_`
        out.append(("0x" + body, int(digits, 16)))
    return out


FWD_DEFS = """use ruint::uint;
macro_rules! fwd_expr { ($e:expr) => { uint!($e) }; }
macro_rules! fwd_lit { ($l:literal) => { uint!($l) }; }
macro_rules! fwd_tt { ($($t:tt)*) => { uint!($($t)*) }; }
macro_rules! fwd_deep { ($e:expr) => { fwd_expr!([($e)][0]) }; }
"""


def mini_program(c, how="direct", k=0):
    """Self-judging one-literal program used as the replay of a positive violation: exits 0 iff the literal has
    exactly the value of its digits (and equals run-time parsing of the same digits)."""
    limbs = limbs_of(c["value"], c["bits"])
    nl = (c["bits"] + 63) // 64
    ty = ("ruint::Uint" if c["kind"] == "U" else "ruint::Bits") + f"<{c['bits']}, {nl}>"
    if how == "forwarded":
        expr = f"{FORWARDERS[k]}!({c['literal']})"
    elif how == "const":
        expr = "C"
    else:
        expr = f"ruint::uint!({c['literal']})"
    pre = f"    const C: {ty} = ruint::uint!({c['literal']});\n" if how == "const" else ""
    inner = "v" if c["kind"] == "U" else "v.into_inner()"
    return (f"#![allow(unused)]\n{FWD_DEFS}fn main() {{\n{pre}    let v: {ty} = {expr};\n"
            f"    assert_eq!(v.as_limbs().to_vec(), vec!{limbs}.into_iter().map(|x: u64| x).collect::<Vec<u64>>());\n"
            f"    assert_eq!(Ok({inner}), ruint::Uint::<{c['bits']}, {nl}>::from_str_radix(\"{c['digits']}\", {c['base']}));\n}}\n")


def build_positive_program(cases, rng, with_passthrough):
    lines = [POS_HEADER, "    uint! {"]
    for i, c in enumerate(cases):
        ctx = CONTEXTS[i % len(CONTEXTS)] if rng.random() < 0.6 else "{lit}"
        expr = ctx.format(lit=c["literal"])
        fn = "show" if c["kind"] == "U" else "showb"
        lines.append(f'        {fn}({i}, {expr}, "{c["digits"]}", {c["base"]});')
    lines.append("    }")
    # constants in item position and typed bindings: the literal must have exactly the stated type
    for i, c in enumerate(cases[:40]):
        limbs = (c["bits"] + 63) // 64
        ty = ("Uint" if c["kind"] == "U" else "Bits") + f"<{c['bits']}, {limbs}>"
        lines.append(f"    {{ const C: {ty} = uint!({c['literal']}); println!(\"C {i} {{:?}}\", C.as_limbs()); }}")
    # the same literals forwarded through macro_rules fragments (invisible groups)
    for i, c in enumerate(cases[:48]):
        k = i % len(FORWARDERS)
        fn = "showf" if c["kind"] == "U" else "showfb"
        lines.append(f"    {fn}({i}, {k}, {FORWARDERS[k]}!({c['literal']}));")
    if with_passthrough:
        for j, (inside, outside) in enumerate(PASS_THROUGH[:8]):
            lines.append(f"    println!(\"P {800 + j} {{}}\", fwd_expr!({inside}) == {outside});")
        for j, (inside, outside) in enumerate(PASS_THROUGH):
            lines.append(f"    println!(\"P {j} {{}}\", uint!({inside}) == {outside});")
        lines.append('    println!("P 900 {}", uint!(format!("{}-{}", 1u8, "2U8")) == "1-2U8");')
        lines.append('    println!("P 901 {}", uint!([1u8, 2u8][1]) == 2u8);')
        lines.append('    println!("P 902 {}", uint!({ let x = 0xB8; x + 1 }) == 0xB9);')
        lines.append('    println!("P 903 {}", uint!(vec![(1u8, "x"), (2u8, "3_U8")].len()) == 2);')
        for j, (lit, val) in enumerate(gen_hex_passthrough(rng, 40)):
            lines.append(f"    println!(\"H {j} {val} {{}}\", {{ let v: u128 = uint!({lit}); v }});")
            lines.append(f"    // hexlit {j} {lit}")
    lines.append("}")
    return "\n".join(lines)


def gen_negative(rng, n):
    """Bad literals: (literal, why)."""
    out = []
    while len(out) < n:
        bits = rng.choice([0, 1, 2, 7, 8, 9, 16, 31, 32, 63, 64, 65, 100, 127, 128, 129, 255, 256, 257, 512, 1024])
        base = rng.choice([10, 16, 8, 2])
        kind = "U" if rng.random() < 0.8 else "B"
        r = rng.random()
        if r < 0.12:
            # a decimal-looking literal whose SECOND character looks like a radix marker (1b101, 7o17, 3x7f):
            # only a leading 0 makes a prefix; these are decimal literals with an invalid character
            lead = rng.choice("123456789")
            mark, alphabet = rng.choice([("b", "01"), ("o", "01234567"), ("x", "0123456789abcdf")])
            rest = "".join(rng.choice(alphabet) for _ in range(rng.randint(1, max(1, min(12, bits // 4 + 1)))))
            out.append((f"{lead}{mark}{rest}_{kind}{max(bits, 64)}", f"decimal literal with '{mark}' as second character"))
            continue
        if r < 0.18:
            # radix markers among the digits: a doubled or mixed prefix (0x0x1f, 0b0b1, 0o0x7, 0x0o7), an
            # upper-case marker (0X1F, 0O17, 0B1: rustc lexes these as decimal 0 with a suffix) or a marker further
            # in. Only a marker that is no digit of the literal's base is used (b/B are hexadecimal digits).
            marker = rng.choice("xoXObB")
            if base == 16 and marker in "bB":
                marker = rng.choice("xoXO")
            alphabet = {10: "0123456789", 16: "0123456789abcdf", 8: "01234567", 2: "01"}[base]
            rest = "".join(rng.choice(alphabet) for _ in range(rng.randint(1, max(1, min(10, bits // 4 + 1)))))
            shape = rng.random()
            if shape < 0.5:
                head = "0"  # looks like a second prefix
            elif shape < 0.7:
                head = "0" + marker + "0"  # tripled
            else:
                head = "".join(rng.choice(alphabet) for _ in range(rng.randint(1, 4)))
            if base == 10 and head[0] == "0" and len(head) == 1 and marker in "xob":
                head = rng.choice("123456789") + head  # a decimal 0x.. / 0o.. / 0b.. would be a genuine prefix
            out.append((f"{PREFIX[base]}{head}{marker}{rest}_{kind}{max(bits, 64)}", f"radix marker '{marker}' among base-{base} digits"))
            continue
        if r < 0.24:
            # a character that is no digit in any base, anywhere among the digits
            good = rng.getrandbits(max(bits - 8, 1)) if bits > 8 else 1
            digits = render_digits(rng, good, base)
            bad = rng.choice("ghijklmnpqrstvwyzGHJKLMNPQRSTVWYZ")
            pos = rng.randint(1, len(digits))
            out.append((f"{PREFIX[base]}{digits[:pos]}{bad}{digits[pos:]}_{kind}{bits}", f"character '{bad}' is not a digit"))
            continue
        if r < 0.3:
            v, why = 2**bits, "value = 2^bits"
        elif r < 0.5:
            v, why = 2**bits + rng.randint(1, 1000), "value = 2^bits + k"
        elif r < 0.65:
            v, why = rng.getrandbits(bits + rng.randint(1, 300)) | (1 << bits), "hundreds of bits into a small width"
        elif r < 0.75:
            v, why = 2**(64 * ((bits + 63) // 64)), "one limb too many"
        else:
            # digit not valid in the base, in particular the digit equal to the base
            good = rng.getrandbits(max(bits - 8, 0)) if bits > 8 else 0
            digits = render_digits(rng, good, base)
            if base == 10:
                bad = rng.choice("aAbcdfF")  # 'e'/'E' would make rustc lex a float
            elif base == 8:
                bad = rng.choice("89aF")
            elif base == 2:
                bad = rng.choice("23789af")
            else:
                continue  # every hex digit is valid; non-hex letters are a suffix error from rustc itself
            if base in (8, 2) and bad in "23456789":
                # rustc's own lexer rejects these before the macro runs: counted separately, not generated here
                continue
            pos = rng.randint(0, len(digits))
            body = digits[:pos] + bad + digits[pos:]
            if body[0] in "abcdfAF":
                body = "1" + body
            out.append((f"{PREFIX[base]}{body}_{kind}{bits}", f"digit '{bad}' invalid in base {base}"))
            continue
        if base == 2 and v.bit_length() > 600:
            continue
        digits = render_digits(rng, v, base)
        sep = "_"
        out.append((f"{PREFIX[base]}{digits}{sep}{kind}{bits}", why))
    return out


NEG_HEADER = """#![allow(unused, clippy::all)]
use ruint::{uint, Bits, Uint};
fn main() {
"""


def build_negative_program(bad, good):
    """Interleave bad and good literal lines; returns (source, bad_lines{line: (lit, why)}, good_lines set)."""
    lines = NEG_HEADER.split("\n")[:-1]
    bad_lines, good_lines = {}, {}
    gi = 0
    for lit, why in bad:
        lines.append(f"    let _ = uint!({lit});")
        bad_lines[len(lines)] = (lit, why)
        if gi < len(good):
            lines.append(f"    let _ = uint!({good[gi]});")
            good_lines[len(lines)] = good[gi]
            gi += 1
    lines.append("}")
    return "\n".join(lines) + "\n", bad_lines, good_lines


def run_macro(tier, seed, ctx):
    """The macro runs inside rustc, in whatever profile the user builds with: the same programs are compiled and
    judged twice, in the dev profile (overflow checks and debug assertions on in the proc-macro) and in the
    release profile (both off)."""
    total = None
    for release in (False, True):
        ev, distinct, samples, viol, inc, detail = _run_macro_profile(tier, seed, ctx, release)
        prof = "release" if release else "dev"
        if total is None:
            total = [ev, distinct, samples, viol, [f"{i}" for i in inc], {prof: detail}]
            continue
        total[0] += ev
        total[1] = max(total[1], distinct)
        for sig, v in viol.items():
            t = total[3].setdefault(sig, dict(count=0, first=[], lane="probe"))
            t["count"] += v["count"]
            t["first"] = (t["first"] + v["first"])[:3]
        total[4] += [f"{prof}:{i}" for i in inc]
        total[5][prof] = detail
    return tuple(total)


def _run_macro_profile(tier, seed, ctx, release):
    rng = random.Random(seed * 7919 + 17)
    root = os.path.join(ctx["WORK"], "probe-macro")
    target = os.path.join(ctx.get("TARGET", os.path.join(ctx["ROOT"], "target")), "probe-macro")
    n_pos_crates, per = (10, 150) if tier == "quick" else (60, 200)
    n_neg, per_neg = (4, 250) if tier == "quick" else (16, 400)
    bins, pos_meta, neg_meta = {}, {}, {}
    # the directed part is seed independent
    fixed_rng = random.Random(12345)
    for k in range(n_pos_crates):
        r = fixed_rng if k < max(1, n_pos_crates // 2) else rng
        cases = gen_positive(r, per, tier)
        bins[f"pos{k}"] = build_positive_program(cases, r, with_passthrough=True)
        pos_meta[f"pos{k}"] = cases
    for k in range(n_neg):
        r = fixed_rng if k < max(1, n_neg // 2) else rng
        bad = gen_negative(r, per_neg)
        good = [c["literal"] for c in gen_positive(r, per_neg, tier)]
        src, bad_lines, good_lines = build_negative_program(bad, good)
        bins[f"neg{k}"] = src
        neg_meta[f"neg{k}"] = (bad_lines, good_lines)
    make_crate(root, "probe_macro", bins, ctx, with_deps=False)
    t = time.time()
    arts, diags, rc, tail = cargo_build(root, target, ctx, release=release)
    ctx["log"](f"[probe] macro ({'release' if release else 'dev'} profile): {len(bins)} programs, {len(arts)} linked, build {time.time() - t:.1f}s")
    violations, samples, inconclusive = {}, [], []
    evals = 0
    distinct = set()
    counts = dict(literals_checked=0, forwarded_checked=0, const_items_checked=0, passthrough_checked=0, bad_literals=0, bad_rejected=0,
                  good_lines_in_negative_programs=0)

    def viol(sig, rec):
        v = violations.setdefault(sig, dict(count=0, first=[], lane="probe"))
        v["count"] += 1
        if len(v["first"]) < 3:
            rec = dict(rec)
            rec.update(property="C19", signature=sig, lane="probe", replay_kind="macro", profile="release" if release else "dev")
            v["first"].append(rec)

    # ---- positive programs
    for name, cases in pos_meta.items():
        if name not in arts:
            msgs = diags.get(name, [])
            # a valid literal that does not compile is a violation: find the literal by line span
            src_lines = bins[name].split("\n")
            if not msgs:
                inconclusive.append(f"macro:{name}:no-artifact-no-diagnostic")
                continue
            for mmsg in msgs[:5]:
                ln = next((s["line_start"] for s in mmsg.get("spans", []) if s.get("is_primary")), None)
                text = src_lines[ln - 1].strip() if ln and ln <= len(src_lines) else "?"
                viol("C19|positive|valid-literal-rejected", dict(op="positive", kind="valid literal rejected at compile time",
                     expected="compiles", observed=mmsg["message"][:300], literal_line=text, program=bins[name]))
            continue
        rc_, out, err = run_bin(arts[name], timeout=120)
        if rc_ != 0:
            viol("C19|positive|program-failed", dict(op="positive", kind="program with valid literals failed at run time",
                 expected="exit 0", observed=f"rc={rc_} {err[-300:]}", program=bins[name]))
            continue
        seen = set()
        for line in out.splitlines():
            parts = line.split(" ", 4)
            if parts[0] == "L":
                i = int(parts[1])
                c = cases[i]
                seen.add(i)
                evals += 1
                counts["literals_checked"] += 1
                if len(c["digits"]) >= 2:
                    distinct.add(c["literal"])
                exp_limbs = limbs_of(c["value"], c["bits"])
                got_b, got_l = int(parts[2]), int(parts[3])
                rest = parts[4]
                limbs_txt, rt_ok = rest.rsplit(" ", 1)
                got_limbs = json.loads(limbs_txt)
                ok = (got_b == c["bits"] and got_l == (c["bits"] + 63) // 64 and got_limbs == exp_limbs)
                if not ok:
                    viol("C19|positive|value", dict(op="positive", kind="literal value/type differs from the digits",
                         literal=c["literal"], expected=f"Uint<{c['bits']}> limbs {exp_limbs}",
                         observed=f"<{got_b},{got_l}> {got_limbs}", program=mini_program(c)))
                if rt_ok != "true":
                    viol("C19|positive|runtime-parse-differs", dict(op="positive", kind="literal differs from from_str_radix of the same digits",
                         literal=c["literal"], expected="equal", observed=rest, program=mini_program(c)))
                if len(samples) < 8 and len(c["digits"]) >= 2:
                    samples.append(dict(property="C19", op="positive", literal=c["literal"], limbs=exp_limbs, verdict="held"))
            elif parts[0] == "F":
                fp = line.split(" ", 5)
                i, k = int(fp[1]), int(fp[2])
                c = cases[i]
                evals += 1
                counts["forwarded_checked"] += 1
                distinct.add(f"fwd{k}-" + c["literal"])
                exp_limbs = limbs_of(c["value"], c["bits"])
                if not (int(fp[3]) == c["bits"] and int(fp[4]) == (c["bits"] + 63) // 64 and json.loads(fp[5]) == exp_limbs):
                    viol("C19|positive|forwarded-value", dict(op="positive", kind=f"literal forwarded through {FORWARDERS[k]}! differs from the digits",
                         literal=c["literal"], expected=f"Uint<{c['bits']}> limbs {exp_limbs}", observed=line, program=mini_program(c, "forwarded", k)))
            elif parts[0] == "C":
                i = int(parts[1])
                c = cases[i]
                evals += 1
                counts["const_items_checked"] += 1
                got = json.loads(line.split(" ", 2)[2])
                if got != limbs_of(c["value"], c["bits"]):
                    viol("C19|positive|const-value", dict(op="positive", kind="const item value differs", literal=c["literal"],
                         expected=str(limbs_of(c["value"], c["bits"])), observed=str(got), program=mini_program(c, "const")))
            elif parts[0] == "H":
                evals += 1
                counts["passthrough_checked"] += 1
                want, got = parts[2], parts[3]
                lit = next((l.split(" ", 3)[3] for l in bins[name].split("\n") if l.strip().startswith(f"// hexlit {parts[1]} ")), "?")
                distinct.add("hex-" + lit)
                if want != got.strip():
                    viol("C19|passthrough|hex-ending-in-B-changed", dict(op="passthrough",
                         kind="hexadecimal literal ending in B<digits> without separating underscore was changed", literal=lit,
                         expected=want, observed=got, program=f"fn main() {{ let v: u128 = ruint::uint!({lit}); assert_eq!(v, {want}); }}"))
            elif parts[0] == "P":
                evals += 1
                counts["passthrough_checked"] += 1
                distinct.add("passthrough-" + parts[1])
                if parts[2].strip() != "true":
                    j = int(parts[1])
                    tok = PASS_THROUGH[j][0] if j < len(PASS_THROUGH) else (f"fwd_expr!({PASS_THROUGH[j - 800][0]})" if 800 <= j < 808 else f"#{j}")
                    viol("C19|passthrough|changed", dict(op="passthrough", kind="non-matching token changed by the macro",
                         literal=tok, expected="unchanged", observed=line, program=bins[name]))
        if len(seen) != len(cases):
            viol("C19|positive|missing-output", dict(op="positive", kind="literal lines missing from output",
                 expected=str(len(cases)), observed=str(len(seen)), program=bins[name]))
    # ---- negative programs
    for name, (bad_lines, good_lines) in neg_meta.items():
        msgs = diags.get(name, [])
        if name in arts:
            # compiled although it contains bad literals: every bad line is a violation
            pass
        err_lines = {}
        for mmsg in msgs:
            for s in mmsg.get("spans", []):
                if s.get("is_primary"):
                    err_lines.setdefault(s["line_start"], mmsg["message"])
        for ln, (lit, why) in bad_lines.items():
            evals += 1
            counts["bad_literals"] += 1
            distinct.add(lit)
            if ln in err_lines:
                counts["bad_rejected"] += 1
                if len(samples) < 14:
                    samples.append(dict(property="C19", op="negative", literal=lit, why=why, diagnostic=err_lines[ln][:120], verdict="held"))
            else:
                cls = "over-range" if why.startswith(("value", "hundreds", "one limb")) else "invalid-digit"
                viol(f"C19|negative|accepted-{cls}", dict(op="negative", kind=f"bad literal accepted ({why})", literal=lit,
                     expected="compile error on this line", observed="no diagnostic for this line", program=f"fn main() {{ let _ = ruint::uint!({lit}); }}"))
        for ln, lit in good_lines.items():
            evals += 1
            counts["good_lines_in_negative_programs"] += 1
            if ln in err_lines:
                viol("C19|negative|good-line-flagged", dict(op="negative", kind="valid literal got a diagnostic", literal=lit,
                     expected="no diagnostic", observed=err_lines[ln][:200], program=f"fn main() {{ let _ = ruint::uint!({lit}); }}"))
    detail = dict(macro_programs=len(bins), macro_counts=counts)
    return evals, len(distinct), samples, violations, inconclusive, detail


def replay_macro(rec, ctx):
    root = os.path.join(ctx["ROOT"], "build", "replay-macro")
    target = os.path.join(ctx.get("TARGET", os.path.join(ctx["ROOT"], "target")), "probe-macro")
    ctx2 = dict(ctx)
    make_crate(root, "probe_macro", {"replay": rec["program"]}, ctx2, with_deps=False)
    arts, diags, rc, tail = cargo_build(root, target, ctx2, release=rec.get("profile") == "release")
    rc_, out = None, ""
    if "replay" not in arts:
        m = (diags.get("replay") or [{}])[0].get("message", "")
        print("replay: does not compile:", m[:300])
        compiled = False
    else:
        rc_, out, err = run_bin(arts["replay"])
        print(f"replay: compiled; rc={rc_}\n{out[:600]}{err[-300:]}")
        compiled = True
    if rec["signature"].startswith("C19|negative|accepted"):
        bad = compiled  # a bad literal must not compile
    else:
        # every other program is valid and self-judging: it has to compile, exit 0 and print no failed P line
        failed_p = any(l.startswith("P ") and l.strip().endswith("false") for l in out.splitlines())
        bad = (not compiled) or rc_ != 0 or failed_p
    return 1 if bad else 0
