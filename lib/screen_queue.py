#!/usr/bin/env python3
"""Screen seeded changes in parallel slot worktrees: screen_queue.py <tier> <slots> <seed ids...>"""
import queue, subprocess, sys, threading, os
tier, nslots, ids = sys.argv[1], int(sys.argv[2]), sys.argv[3:]
q = queue.Queue()
for i in ids: q.put(i)
def worker(slot):
    while True:
        try: sid = q.get_nowait()
        except queue.Empty: return
        p = subprocess.run([sys.executable, os.path.join(os.path.dirname(__file__), "seedtool.py"), "screen", sid, slot, tier],
                           stdout=subprocess.PIPE, stderr=subprocess.STDOUT, text=True)
        print(p.stdout.strip().splitlines()[-1] if p.stdout.strip() else f"{sid}: no output", flush=True)
ts = [threading.Thread(target=worker, args=(f"s{k+1}",)) for k in range(nslots)]
[t.start() for t in ts]; [t.join() for t in ts]
