//! C07 — integer conversions: primitives / limb slices / other-width Uint into
//! Uint and back, in their try/from/wrapping/saturating forms.

use num_bigint::{BigInt, BigUint};
use num_traits::{Signed, ToPrimitive, Zero};
use ruint::{FromUintError, ToUintError, Uint, UintTryFrom, UintTryTo};
use vmon::{an, au, big, gen, uint, Arg, Mon};

vmon::widths!(exec; 0, 1, 2, 3, 7, 8, 9, 15, 16, 17, 31, 32, 33, 60, 63, 64, 65, 100, 127, 128, 129, 192,
    250, 255, 256, 257, 384, 512, 1024, 4096);

/// v mod 2^bits as limbs, for any signed v.
fn wrap_signed(v: &BigInt, bits: usize) -> Vec<u64> {
    let m = BigInt::from(big::p2(bits));
    let r = ((v % &m) + &m) % &m;
    big::limbs(&r.to_biguint().unwrap(), gen::nlimbs(bits))
}

macro_rules! from_prim {
    ($m:ident, $a:ident, $B:ident, $L:ident, $t:ty, $v:expr, $src_bits:expr) => {{
        type U<const B: usize, const L: usize> = Uint<B, L>;
        let v: $t = $v;
        let bv: BigInt = BigInt::from(v);
        let neg = bv.is_negative();
        let fits = !neg && big::fits(&bv.to_biguint().unwrap(), $B);
        let wrapped = wrap_signed(&bv, $B);
        $m.nontrivial(bv != BigInt::from(0) && bv != BigInt::from(1));
        $m.obs(|| format!("source={bv} fits={fits} wrapped={}", big::hex(&wrapped)));
        if let Some(r) = $m.must_in("try_from", || U::<$B, $L>::try_from(v)) {
            match r {
                Ok(x) => {
                    if $m.eq("try_from.ok", &true, &fits) {
                        $m.eq_uint("try_from.value", &x, &wrapped);
                    }
                }
                Err(ToUintError::ValueTooLarge(b, x)) => {
                    $m.check(!fits && !neg, "try_from.err-kind", || format!("fits={fits} negative={neg}"), || "ValueTooLarge".into());
                    $m.eq("try_from.err-bits", &b, &$B);
                    $m.eq_uint("try_from.too-large-payload", &x, &wrapped);
                }
                Err(ToUintError::ValueNegative(b, x)) => {
                    $m.check(neg, "try_from.err-kind", || format!("fits={fits} negative={neg}"), || "ValueNegative".into());
                    $m.eq("try_from.err-bits", &b, &$B);
                    if $B <= $src_bits {
                        $m.eq_uint("try_from.negative-payload", &x, &wrapped);
                    } else {
                        $m.canonical(&x);
                    }
                }
                Err(ToUintError::NotANumber(_)) => $m.fail("try_from.err-kind", "integer source", "NotANumber"),
            }
        }
        if fits {
            if let Some(x) = $m.must_in("from", || U::<$B, $L>::from(v)) {
                $m.eq_uint("from", &x, &wrapped);
            }
        } else {
            $m.must_panic(|| U::<$B, $L>::from(v), "value not representable");
        }
        if let Some(x) = $m.must_in("wrapping_from", || U::<$B, $L>::wrapping_from(v)) {
            if !neg || $B <= $src_bits {
                $m.eq_uint("wrapping_from", &x, &wrapped);
            } else {
                $m.canonical(&x);
            }
        }
        if let Some(x) = $m.must_in("saturating_from", || U::<$B, $L>::saturating_from(v)) {
            let e = if fits { wrapped.clone() } else if neg { gen::zero($B) } else { gen::max($B) };
            $m.eq_uint("saturating_from", &x, &e);
        }
    }};
}

macro_rules! to_prim {
    ($m:ident, $x:ident, $bv:ident, $B:ident, $t:ty, $name:literal) => {{
        // value fits the target iff 0 <= v <= T::MAX; wrapped = v mod 2^Tbits (two's complement), saturated = MAX
        let tmax = BigUint::from(<$t>::MAX as u128);
        let fits = $bv <= tmax;
        let low = ($bv.clone() % big::p2(<$t>::BITS as usize)).to_u128().unwrap();
        let wrapped = low as $t;
        if let Some(r) = $m.must_in(concat!($name, ".try_from_ref"), || <$t>::try_from(&$x)) {
            match r {
                Ok(v) => {
                    if $m.eq(concat!($name, ".try.ok"), &true, &fits) {
                        $m.eq(concat!($name, ".try.value"), &v, &wrapped);
                    }
                }
                Err(FromUintError::Overflow(b, w, s)) => {
                    $m.eq(concat!($name, ".try.err"), &true, &!fits);
                    $m.eq(concat!($name, ".err-bits"), &b, &$B);
                    $m.eq(concat!($name, ".err-wrapped"), &w, &wrapped);
                    $m.eq(concat!($name, ".err-saturated"), &s, &<$t>::MAX);
                }
            }
        }
        if let Some(r) = $m.must_in(concat!($name, ".try_from_val"), || <$t>::try_from($x)) {
            $m.eq(concat!($name, ".try_val.ok"), &r.is_ok(), &fits);
        }
        if fits {
            if let Some(v) = $m.must_in(concat!($name, ".to"), || $x.to::<$t>()) {
                $m.eq(concat!($name, ".to"), &v, &wrapped);
            }
        } else {
            $m.must_panic(|| $x.to::<$t>(), "value does not fit target");
        }
        if let Some(v) = $m.must_in(concat!($name, ".wrapping_to"), || $x.wrapping_to::<$t>()) {
            $m.eq(concat!($name, ".wrapping_to"), &v, &wrapped);
        }
        if let Some(v) = $m.must_in(concat!($name, ".saturating_to"), || $x.saturating_to::<$t>()) {
            $m.eq(concat!($name, ".saturating_to"), &v, &if fits { wrapped } else { <$t>::MAX });
        }
    }};
}

fn uu_go<const B: usize, const L: usize, const D: usize, const LD: usize>(m: &mut Mon, a: &[u64]) {
    let x: Uint<B, L> = uint(a);
    let bv = big::big(a);
    let fits = big::fits(&bv, D);
    let wrapped = big::wrap(&bv, D);
    m.obs(|| format!("dst_bits={D} fits={fits} wrapped={}", big::hex(&wrapped)));
    // into the destination
    if let Some(r) = m.must_in("uint_try_from", || <Uint<D, LD> as UintTryFrom<Uint<B, L>>>::uint_try_from(x)) {
        match r {
            Ok(v) => {
                if m.eq("uint_try_from.ok", &true, &fits) {
                    m.eq_uint("uint_try_from.value", &v, &wrapped);
                }
            }
            Err(ToUintError::ValueTooLarge(b, v)) => {
                m.eq("uint_try_from.err", &true, &!fits);
                m.eq("uint_try_from.err-bits", &b, &D);
                m.eq_uint("uint_try_from.payload", &v, &wrapped);
            }
            Err(e) => m.fail("uint_try_from.err-kind", "ValueTooLarge", &format!("{e:?}")),
        }
    }
    if fits {
        if let Some(v) = m.must_in("Uint::from(Uint)", || Uint::<D, LD>::from(x)) {
            m.eq_uint("from", &v, &wrapped);
        }
        if let Some(v) = m.must_in("to::<Uint>", || x.to::<Uint<D, LD>>()) {
            m.eq_uint("to", &v, &wrapped);
        }
    } else {
        m.must_panic(|| Uint::<D, LD>::from(x), "source too large");
        m.must_panic(|| x.to::<Uint<D, LD>>(), "source too large");
    }
    // the deprecated (still public) spellings
    #[allow(deprecated)]
    {
        if fits {
            if let Some(v) = m.must_in("from_uint", || Uint::<D, LD>::from_uint(x)) {
                m.eq_uint("from_uint", &v, &wrapped);
            }
        } else {
            m.must_panic(|| Uint::<D, LD>::from_uint(x), "source too large");
        }
        if let Some(v) = m.must_in("checked_from_uint", || Uint::<D, LD>::checked_from_uint(x)) {
            match v {
                Some(v) => {
                    if m.eq("checked_from_uint.some", &true, &fits) {
                        m.eq_uint("checked_from_uint.value", &v, &wrapped);
                    }
                }
                None => {
                    m.eq("checked_from_uint.none", &true, &!fits);
                }
            }
        }
    }
    if let Some(v) = m.must_in("into_limbs", || x.into_limbs().to_vec()) {
        m.eq("into_limbs", &v, &a.to_vec());
    }
    if let Some(v) = m.must_in("wrapping_from(Uint)", || Uint::<D, LD>::wrapping_from(x)) {
        m.eq_uint("wrapping_from", &v, &wrapped);
    }
    if let Some(v) = m.must_in("saturating_from(Uint)", || Uint::<D, LD>::saturating_from(x)) {
        m.eq_uint("saturating_from", &v, &if fits { wrapped.clone() } else { gen::max(D) });
    }
    if let Some(v) = m.must_in("wrapping_to::<Uint>", || x.wrapping_to::<Uint<D, LD>>()) {
        m.eq_uint("wrapping_to", &v, &wrapped);
    }
    if let Some(v) = m.must_in("saturating_to::<Uint>", || x.saturating_to::<Uint<D, LD>>()) {
        m.eq_uint("saturating_to", &v, &if fits { wrapped.clone() } else { gen::max(D) });
    }
    if let Some(r) = m.must_in("uint_try_to", || <Uint<B, L> as UintTryTo<Uint<D, LD>>>::uint_try_to(&x)) {
        match r {
            Ok(v) => {
                if m.eq("uint_try_to.ok", &true, &fits) {
                    m.eq_uint("uint_try_to.value", &v, &wrapped);
                }
            }
            Err(FromUintError::Overflow(b, w, s)) => {
                m.eq("uint_try_to.err", &true, &!fits);
                m.eq("uint_try_to.err-bits", &b, &D);
                m.eq_uint("uint_try_to.wrapped", &w, &wrapped);
                m.eq_uint("uint_try_to.saturated", &s, &gen::max(D));
            }
        }
    }
}

const UGRID: &[usize] = &[0, 1, 7, 8, 63, 64, 65, 127, 128, 129, 192, 255, 256, 257];

macro_rules! uu_dispatch {
    ([$($d:literal),*]) => {
        fn uu<const B: usize, const L: usize>(m: &mut Mon, dst: usize, a: &[u64]) {
            match dst {
                $($d => uu_go::<B, L, $d, { ($d + 63) / 64 }>(m, a),)*
                _ => panic!("harness: destination width {dst} not in grid"),
            }
        }
        /// Source widths of the Uint -> Uint grid are the grid widths themselves
        /// (kept out of the generic `exec` to bound compile time).
        fn uu_src(m: &mut Mon, src: usize, dst: usize, a: &[u64]) {
            match src {
                $($d => uu::<$d, { ($d + 63) / 64 }>(m, dst, a),)*
                _ => panic!("harness: source width {src} not in grid"),
            }
        }
    };
}
uu_dispatch!([0, 1, 7, 8, 63, 64, 65, 127, 128, 129, 192, 255, 256, 257]);

fn dispatch2(m: &mut Mon, bits: usize, op: &str, a: &[Arg]) {
    if op == "uint_uint" {
        m.nontrivial(big::big(a[0].u()) > BigUint::from(1u8));
        uu_src(m, bits, a[1].us(), a[0].u());
    } else {
        dispatch(m, bits, op, a);
    }
}

fn exec<const B: usize, const L: usize>(m: &mut Mon, op: &str, a: &[Arg]) {
    match op {
        "from.bool" => {
            let v = a[0].n() != 0;
            let bv = BigInt::from(u8::from(v));
            let fits = big::fits(&bv.to_biguint().unwrap(), B);
            let wrapped = wrap_signed(&bv, B);
            m.nontrivial(v);
            if let Some(r) = m.must_in("try_from", || Uint::<B, L>::try_from(v)) {
                match r {
                    Ok(x) => {
                        if m.eq("try_from.ok", &true, &fits) {
                            m.eq_uint("try_from.value", &x, &wrapped);
                        }
                    }
                    Err(ToUintError::ValueTooLarge(b, x)) => {
                        m.eq("try_from.err", &true, &!fits);
                        m.eq("try_from.err-bits", &b, &B);
                        m.eq_uint("try_from.too-large-payload", &x, &wrapped);
                    }
                    Err(e) => m.fail("try_from.err-kind", "ValueTooLarge", &format!("{e:?}")),
                }
            }
            if let Some(x) = m.must_in("wrapping_from", || Uint::<B, L>::wrapping_from(v)) {
                m.eq_uint("wrapping_from", &x, &wrapped);
            }
            if let Some(x) = m.must_in("saturating_from", || Uint::<B, L>::saturating_from(v)) {
                m.eq_uint("saturating_from", &x, &if fits { wrapped.clone() } else { gen::max(B) });
            }
        }
        "from.u8" => from_prim!(m, a, B, L, u8, a[0].n() as u8, 8),
        "from.u16" => from_prim!(m, a, B, L, u16, a[0].n() as u16, 16),
        "from.u32" => from_prim!(m, a, B, L, u32, a[0].n() as u32, 32),
        "from.u64" => from_prim!(m, a, B, L, u64, a[0].n() as u64, 64),
        "from.u128" => from_prim!(m, a, B, L, u128, a[0].n(), 128),
        "from.usize" => from_prim!(m, a, B, L, usize, a[0].n() as usize, 64),
        "from.i8" => from_prim!(m, a, B, L, i8, a[0].i() as i8, 8),
        "from.i16" => from_prim!(m, a, B, L, i16, a[0].i() as i16, 16),
        "from.i32" => from_prim!(m, a, B, L, i32, a[0].i() as i32, 32),
        "from.i64" => from_prim!(m, a, B, L, i64, a[0].i() as i64, 64),
        "from.i128" => from_prim!(m, a, B, L, i128, a[0].i(), 128),
        "from.isize" => from_prim!(m, a, B, L, isize, a[0].i() as isize, 64),
        "to_prims" => {
            let x: Uint<B, L> = uint(a[0].u());
            let bv = big::big(a[0].u());
            m.nontrivial(bv > BigUint::from(1u8));
            m.obs(|| format!("value={}", big::bhex(&bv)));
            to_prim!(m, x, bv, B, u8, "u8");
            to_prim!(m, x, bv, B, u16, "u16");
            to_prim!(m, x, bv, B, u32, "u32");
            to_prim!(m, x, bv, B, u64, "u64");
            to_prim!(m, x, bv, B, u128, "u128");
            to_prim!(m, x, bv, B, usize, "usize");
            to_prim!(m, x, bv, B, i8, "i8");
            to_prim!(m, x, bv, B, i16, "i16");
            to_prim!(m, x, bv, B, i32, "i32");
            to_prim!(m, x, bv, B, i64, "i64");
            to_prim!(m, x, bv, B, i128, "i128");
            to_prim!(m, x, bv, B, isize, "isize");
            // bool
            let fits = bv <= BigUint::from(1u8);
            let low = !(bv.clone() % 2u8).is_zero();
            if let Some(r) = m.must_in("bool.try_from", || bool::try_from(&x)) {
                match r {
                    Ok(v) => {
                        if m.eq("bool.try.ok", &true, &fits) {
                            m.eq("bool.try.value", &v, &low);
                        }
                    }
                    Err(FromUintError::Overflow(b, w, s)) => {
                        m.eq("bool.try.err", &true, &!fits);
                        m.eq("bool.err-bits", &b, &B);
                        m.eq("bool.err-wrapped", &w, &low);
                        m.eq("bool.err-saturated", &s, &true);
                    }
                }
            }
            if let Some(v) = m.must_in("bool.wrapping_to", || x.wrapping_to::<bool>()) {
                m.eq("bool.wrapping_to", &v, &low);
            }
            if let Some(v) = m.must_in("bool.saturating_to", || x.saturating_to::<bool>()) {
                m.eq("bool.saturating_to", &v, &if fits { low } else { true });
            }
        }
        "limbs_slice" => {
            let s = a[0].u();
            let bv = big::big(s);
            let fits = big::fits(&bv, B);
            let wrapped = big::wrap(&bv, B);
            m.nontrivial(bv > BigUint::from(1u8));
            m.obs(|| format!("slice_len={} fits={fits} wrapped={}", s.len(), big::hex(&wrapped)));
            if let Some((v, f)) = m.must_in("overflowing_from_limbs_slice", || Uint::<B, L>::overflowing_from_limbs_slice(s)) {
                m.eq_uint("overflowing_from_limbs_slice.value", &v, &wrapped);
                m.eq("overflowing_from_limbs_slice.flag", &f, &!fits);
            }
            if let Some(v) = m.must_in("wrapping_from_limbs_slice", || Uint::<B, L>::wrapping_from_limbs_slice(s)) {
                m.eq_uint("wrapping_from_limbs_slice", &v, &wrapped);
            }
            if let Some(v) = m.must_in("saturating_from_limbs_slice", || Uint::<B, L>::saturating_from_limbs_slice(s)) {
                m.eq_uint("saturating_from_limbs_slice", &v, &if fits { wrapped.clone() } else { gen::max(B) });
            }
            if let Some(v) = m.must_in("checked_from_limbs_slice", || Uint::<B, L>::checked_from_limbs_slice(s)) {
                match v {
                    Some(v) => {
                        if m.eq("checked_from_limbs_slice.some", &true, &fits) {
                            m.eq_uint("checked_from_limbs_slice.value", &v, &wrapped);
                        }
                    }
                    None => {
                        m.eq("checked_from_limbs_slice.none", &true, &!fits);
                    }
                }
            }
            if fits {
                if let Some(v) = m.must_in("from_limbs_slice", || Uint::<B, L>::from_limbs_slice(s)) {
                    m.eq_uint("from_limbs_slice", &v, &wrapped);
                }
            } else {
                m.must_panic(|| Uint::<B, L>::from_limbs_slice(s), "value too large");
            }
            if s.len() == L {
                let mut arr = [0u64; L];
                arr.copy_from_slice(s);
                if fits {
                    if let Some(v) = m.must_in("from_limbs", || Uint::<B, L>::from_limbs(arr)) {
                        m.eq_uint("from_limbs", &v, &wrapped);
                    }
                } else {
                    m.must_panic(|| Uint::<B, L>::from_limbs(arr), "value too large");
                }
            }
        }
        _ => panic!("harness: unknown op {op}"),
    }
}

/// Candidate source values in [lo, hi]: boundaries of the type, powers of two and neighbours.
fn candidates(lo: i128, hi_u: u128, bits: usize) -> Vec<i128> {
    let mut out: Vec<i128> = vec![0, 1, -1, 2, -2, lo, lo.wrapping_add(1), 10, 100, 255, 256, -128, -129];
    for k in 0..=127u32 {
        let p = 1i128.checked_shl(k).unwrap_or(0);
        let near = (k as i64 - bits as i64).abs() <= 2 || k % 8 == 0 || k % 8 == 7 || k <= 9 || [15, 16, 17, 31, 32, 33, 62, 63, 64, 65, 126, 127].contains(&k);
        if !near {
            continue;
        }
        for d in [-1i128, 0, 1] {
            out.push(p.wrapping_add(d));
            out.push(p.wrapping_neg().wrapping_add(d));
        }
    }
    out.retain(|&v| v >= lo && (v < 0 || (v as u128) <= hi_u));
    out.sort_unstable();
    out.dedup();
    out
}

fn workload(m: &mut Mon, bits: usize) {
    // ---- primitive -> Uint
    macro_rules! signed_src {
        ($name:literal, $t:ty) => {{
            for v in candidates(<$t>::MIN as i128, <$t>::MAX as u128, bits) {
                if !m.keep() {
                    continue;
                }
                m.case($name, bits, vec![Arg::I(v)]);
            }
        }};
    }
    macro_rules! unsigned_src {
        ($name:literal, $t:ty) => {{
            for v in candidates(0, <$t>::MAX as u128, bits) {
                if !m.keep() {
                    continue;
                }
                m.case($name, bits, vec![Arg::N(v as u128)]);
            }
            m.case($name, bits, vec![Arg::N(<$t>::MAX as u128)]);
            m.case($name, bits, vec![Arg::N(<$t>::MAX as u128 - 1)]);
        }};
    }
    m.case("from.bool", bits, vec![Arg::N(0)]);
    m.case("from.bool", bits, vec![Arg::N(1)]);
    unsigned_src!("from.u8", u8);
    unsigned_src!("from.u16", u16);
    unsigned_src!("from.u32", u32);
    unsigned_src!("from.u64", u64);
    unsigned_src!("from.u128", u128);
    unsigned_src!("from.usize", usize);
    signed_src!("from.i8", i8);
    signed_src!("from.i16", i16);
    signed_src!("from.i32", i32);
    signed_src!("from.i64", i64);
    signed_src!("from.i128", i128);
    signed_src!("from.isize", isize);
    // exhaustive 8-bit sources
    for v in 0..=255u32 {
        if !m.keep() {
            continue;
        }
        m.case("from.u8", bits, vec![Arg::N(v.into())]);
        m.case("from.i8", bits, vec![Arg::I(i128::from(v as u8 as i8))]);
    }
    if !m.is_light() {
        m.mark_exhaustive(format!("BITS={bits}: all 256 values of u8 and of i8 as conversion sources"));
    }
    // u128 values with structured high limb (2 limb types with a partial mask)
    let mut r = m.stream("c07.prims", bits);
    for i in 0..m.iters(1500) {
        if i % 256 == 0 && m.time_up() {
            break;
        }
        let hi = gen::alpha_limb(&mut r);
        let lo = gen::alpha_limb(&mut r);
        let v = (u128::from(hi) << 64) | u128::from(lo);
        m.case("from.u128", bits, vec![Arg::N(v)]);
        m.case("from.i128", bits, vec![Arg::I(v as i128)]);
        m.case("from.u64", bits, vec![Arg::N(u128::from(lo))]);
        m.case("from.i64", bits, vec![Arg::I(i128::from(lo as i64))]);
        m.case("from.u32", bits, vec![Arg::N(u128::from(lo as u32))]);
        m.case("from.i32", bits, vec![Arg::I(i128::from(lo as i32))]);
        m.case("from.u16", bits, vec![Arg::N(u128::from(lo as u16))]);
        m.case("from.i16", bits, vec![Arg::I(i128::from(lo as i16))]);
        m.case("from.usize", bits, vec![Arg::N(u128::from(lo))]);
        m.case("from.isize", bits, vec![Arg::I(i128::from(lo as i64))]);
    }
    // ---- Uint -> primitive, Uint -> Uint
    let mut vals = gen::boundary(bits);
    for k in [7usize, 8, 15, 16, 31, 32, 63, 64, 127, 128] {
        for d in 0..3 {
            let mut v = gen::pow2(k, bits);
            if !gen::is_zero(&v) && d == 1 {
                v[0] |= 1;
            }
            if d == 2 {
                v = gen::ones(k, bits);
            }
            vals.push(v);
        }
    }
    for &dst in UGRID {
        for d in 0..3usize {
            vals.push(match d {
                0 => gen::pow2(dst, bits),
                1 => gen::ones(dst, bits),
                _ => {
                    let mut v = gen::pow2(dst, bits);
                    if !v.is_empty() {
                        v[0] |= 1;
                    }
                    gen::canon(v, bits)
                }
            });
        }
    }
    vals.sort();
    vals.dedup();
    for v in &vals {
        if !m.keep() {
            continue;
        }
        m.case("to_prims", bits, vec![au(v)]);
        if UGRID.contains(&bits) {
            for &dst in UGRID {
                m.case("uint_uint", bits, vec![au(v), an(dst)]);
            }
        }
    }
    let mut r = m.stream("c07.uint", bits);
    let iters = m.iters(if bits <= 256 { 2500 } else { 800 });
    for i in 0..iters {
        if i % 256 == 0 && m.time_up() {
            break;
        }
        let v = gen::hostile(&mut r, bits);
        m.case("to_prims", bits, vec![au(&v)]);
        if UGRID.contains(&bits) {
            m.case("uint_uint", bits, vec![au(&v), an(*r.pick(UGRID))]);
        }
    }
    // ---- limb slices of every length 0..=LIMBS+2
    let l = gen::nlimbs(bits);
    let mut r = m.stream("c07.slices", bits);
    let reps = m.iters(if l <= 8 { 60 } else { 12 });
    for len in 0..=l + 2 {
        if l > 16 && len > 3 && len + 4 < l {
            continue;
        }
        for k in 0..reps {
            if !m.keep() {
                continue;
            }
            let mut s = gen::slice(&mut r, len);
            // steer the limb at index LIMBS-1 around the mask
            if l > 0 && len >= l {
                match k % 6 {
                    0 => s[l - 1] = gen::mask(bits),
                    1 => s[l - 1] = gen::mask(bits).wrapping_add(1),
                    2 => s[l - 1] &= gen::mask(bits),
                    3 => {
                        s[l - 1] &= gen::mask(bits);
                        for x in &mut s[l..] {
                            *x = 0;
                        }
                    }
                    4 => {
                        s[l - 1] &= gen::mask(bits);
                        if len > l {
                            for x in &mut s[l..] {
                                *x = 0;
                            }
                            s[len - 1] = 1;
                        }
                    }
                    _ => {}
                }
            }
            m.case("limbs_slice", bits, vec![au(&s)]);
        }
    }
    // The interpreter lanes execute one or two `limbs_slice` cases per width (per-operation decay), so which slice
    // length they see is luck - seeded change C07-I (an access one past the limb array for a slice of exactly LIMBS
    // limbs at BITS % 64 = 0) was reported by the quick tier in some runs only. Shape corpus: every slice length
    // 0..=LIMBS+2 with all-ones limbs (top limb inside / outside the mask), unthinned there.
    if m.is_light() && l <= 9 {
        let mut idx = 0u64;
        for len in 0..=l + 2 {
            for inside in [true, false] {
                idx += 1;
                if m.light_owns(idx, "limbs_slice") {
                    let mut s = vec![u64::MAX; len];
                    if inside && l > 0 && len >= l {
                        s[l - 1] = gen::mask(bits);
                        for x in &mut s[l..] {
                            *x = 0;
                        }
                    }
                    m.case_always("limbs_slice", bits, vec![au(&s)]);
                }
            }
        }
    }
}

fn main() {
    let mut m = Mon::new("C07", dispatch2);
    if !m.replay_if_requested() {
        loop {
            for &bits in WIDTHS {
                if m.width_enabled(bits) {
                    workload(&mut m, bits);
                }
            }
            if !m.another_light_pass() {
                break;
            }
        }
    }
    m.finish();
}
