//! C07 workload (under construction).
fn main() {}
