//! C18 workload (under construction).
fn main() {}
