//! C18 — floating-point conversions. Uint -> f64/f32: neighbour rule, exactness
//! when representable, infinity bound, monotonicity. f64/f32 -> Uint: exact
//! floor(f + 1/2), classification of NaN / negative / too large, saturation.
//! Never run under Miri (Miri perturbs exp2/log2 by random ULPs).

use num_bigint::BigUint;
use num_traits::{One, Zero};
use ruint::{ToUintError, Uint};
use vmon::{au, big, gen, rng::Rng, uint, Arg, Mon};

vmon::widths!(exec; 0, 1, 7, 8, 24, 25, 31, 32, 52, 53, 54, 63, 64, 65, 127, 128, 129, 192, 255, 256, 257,
    512, 1023, 1024, 1025, 1088, 2048);

/// Exact value of a finite non-negative f64 as (mantissa, exponent): m * 2^e.
fn decompose(f: f64) -> (u64, i32) {
    let bits = f.to_bits();
    let be = ((bits >> 52) & 0x7ff) as i32;
    let frac = bits & 0x000f_ffff_ffff_ffff;
    if be == 0 {
        (frac, -1074)
    } else {
        (frac | (1 << 52), be - 1075)
    }
}

/// floor(f + 1/2) exactly, for finite f >= 0.
fn round_half_up(f: f64) -> BigUint {
    let (mant, e) = decompose(f);
    if e >= 0 {
        BigUint::from(mant) << (e as usize)
    } else {
        let s = (-e) as usize;
        if s > 70 {
            return BigUint::zero(); // f < 2^53 * 2^-71 < 1/2
        }
        // (m * 2 + 2^s) / 2^(s+1)
        ((BigUint::from(mant) << 1usize) + (BigUint::one() << s)) >> (s + 1)
    }
}

/// Exact value of a finite f64 >= 0 as a rational m * 2^e compared with V.
fn cmp_float_to_int(f: f64, v: &BigUint) -> std::cmp::Ordering {
    let (mant, e) = decompose(f);
    if e >= 0 {
        (BigUint::from(mant) << (e as usize)).cmp(v)
    } else {
        BigUint::from(mant).cmp(&(v << ((-e) as usize)))
    }
}

/// Judge a conversion of the integer V to a float `got` (given as f64, `mant_bits` = 53 or 24).
fn judge_to_float(m: &mut Mon, kind: &str, v: &BigUint, got: f64, is_f32: bool) {
    use std::cmp::Ordering::*;
    if got.is_nan() || got < 0.0 || (got == 0.0 && got.is_sign_negative()) {
        m.fail(&format!("{kind}.class"), "a non-negative float", &format!("{got:?}"));
        return;
    }
    let (inf_bound, prev_of, next_of): (BigUint, fn(f64) -> f64, fn(f64) -> f64) = if is_f32 {
        (
            big::p2(128) - big::p2(103),
            |x| f64::from(f32::from_bits((x as f32).to_bits().wrapping_sub(1))),
            |x| f64::from(f32::from_bits((x as f32).to_bits() + 1)),
        )
    } else {
        (
            big::p2(1024) - big::p2(970),
            |x| f64::from_bits(x.to_bits().wrapping_sub(1)),
            |x| f64::from_bits(x.to_bits() + 1),
        )
    };
    if got.is_infinite() {
        m.check(*v >= inf_bound, &format!("{kind}.infinity"), || "finite float (value below the rounding range of MAX)".into(), || "inf".into());
        return;
    }
    match cmp_float_to_int(got, v) {
        Equal => {}
        Less => {
            // got < V: must be the largest float <= V, i.e. next(got) > V
            let nx = next_of(got);
            let ok = nx.is_infinite() || cmp_float_to_int(nx, v) == Greater;
            m.check(ok, &format!("{kind}.neighbour"), || format!("one of the two floats around {}", big::bhex(v)), || format!("{got:e} (next float up is still <= value)"));
        }
        Greater => {
            let ok = got > 0.0 && cmp_float_to_int(prev_of(got), v) == Less;
            m.check(ok, &format!("{kind}.neighbour"), || format!("one of the two floats around {}", big::bhex(v)), || format!("{got:e} (next float down is still >= value)"));
        }
    }
}

#[derive(Debug, PartialEq, Eq, Clone)]
enum Class {
    Value(Vec<u64>),
    TooLarge,
    Negative,
    NaN,
}

fn classify(f: f64, bits: usize) -> Class {
    if f.is_nan() {
        return Class::NaN;
    }
    if f < 0.0 {
        return Class::Negative;
    }
    if f.is_infinite() {
        return Class::TooLarge;
    }
    let r = round_half_up(f);
    if big::fits(&r, bits) {
        Class::Value(big::limbs(&r, gen::nlimbs(bits)))
    } else {
        Class::TooLarge
    }
}

fn judge_from_float<const B: usize, const L: usize>(m: &mut Mon, tag: &str, want: &Class, got: Result<Uint<B, L>, ToUintError<Uint<B, L>>>) {
    match (&got, want) {
        (Ok(v), Class::Value(e)) => {
            m.eq_uint(&format!("{tag}.value"), v, e);
        }
        (Err(ToUintError::ValueTooLarge(b, w)), Class::TooLarge) => {
            m.eq(&format!("{tag}.err-bits"), b, &B);
            m.canonical(w);
        }
        (Err(ToUintError::ValueNegative(b, w)), Class::Negative) => {
            m.eq(&format!("{tag}.err-bits"), b, &B);
            m.canonical(w);
        }
        (Err(ToUintError::NotANumber(b)), Class::NaN) => {
            m.eq(&format!("{tag}.err-bits"), b, &B);
        }
        _ => {
            if let Ok(v) = &got {
                m.canonical(v);
            }
            m.fail(&format!("{tag}.class"), &format!("{want:?}").chars().take(200).collect::<String>(), &format!("{got:?}").chars().take(200).collect::<String>());
        }
    }
}

fn exec<const B: usize, const L: usize>(m: &mut Mon, op: &str, a: &[Arg]) {
    match op {
        "to_float" => {
            let x: Uint<B, L> = uint(a[0].u());
            let bv = big::big(a[0].u());
            m.nontrivial(bv.bits() > 53);
            if let Some(f) = m.must_in("f64::from", || f64::from(x)) {
                m.obs(|| format!("f64={f:e}"));
                judge_to_float(m, "f64", &bv, f, false);
                if let Some(g) = m.must_in("f64::from(&)", || f64::from(&x)) {
                    m.eq("f64.ref", &g.to_bits(), &f.to_bits());
                }
            }
            if let Some(f) = m.must_in("f32::from", || f32::from(x)) {
                judge_to_float(m, "f32", &bv, f64::from(f), true);
                if let Some(g) = m.must_in("f32::from(&)", || f32::from(&x)) {
                    m.eq("f32.ref", &g.to_bits(), &f.to_bits());
                }
            }
        }
        "to_float_mono" => {
            // a[0] <= a[1]
            let (x, y): (Uint<B, L>, Uint<B, L>) = (uint(a[0].u()), uint(a[1].u()));
            m.nontrivial(big::big(a[1].u()).bits() > 53);
            if let (Some(f), Some(g)) = (m.must_in("f64::from", || f64::from(x)), m.must_in("f64::from", || f64::from(y))) {
                m.check(f <= g, "f64.monotone", || "f(a) <= f(b) for a <= b".into(), || format!("{f:e} > {g:e}"));
            }
            if let (Some(f), Some(g)) = (m.must_in("f32::from", || f32::from(x)), m.must_in("f32::from", || f32::from(y))) {
                m.check(f <= g, "f32.monotone", || "f(a) <= f(b) for a <= b".into(), || format!("{f:e} > {g:e}"));
            }
        }
        "from_f64" | "from_f32" => {
            let f: f64 = if op == "from_f64" { f64::from_bits(a[0].n() as u64) } else { f64::from(f32::from_bits(a[0].n() as u32)) };
            let want = classify(f, B);
            m.nontrivial(f.is_finite() && f != 0.0);
            m.obs(|| format!("float={f:e} expected={}", format!("{want:?}").chars().take(120).collect::<String>()));
            let tag = if op == "from_f64" { "f64" } else { "f32" };
            macro_rules! run {
                ($v:expr) => {{
                    let fv = $v;
                    if let Some(r) = m.must_in("try_from(float)", || Uint::<B, L>::try_from(fv)) {
                        judge_from_float(m, tag, &want, r);
                    }
                    match &want {
                        Class::Value(e) => {
                            if let Some(v) = m.must_in("from(float)", || Uint::<B, L>::from(fv)) {
                                m.eq_uint(&format!("{tag}.from"), &v, e);
                            }
                        }
                        _ => {
                            m.must_panic(|| Uint::<B, L>::from(fv), "float not representable");
                        }
                    }
                    if let Some(v) = m.must_in("saturating_from(float)", || Uint::<B, L>::saturating_from(fv)) {
                        let e = match &want {
                            Class::Value(e) => e.clone(),
                            Class::TooLarge => gen::max(B),
                            _ => gen::zero(B),
                        };
                        m.eq_uint(&format!("{tag}.saturating_from"), &v, &e);
                    }
                    if let Some(v) = m.must_in("wrapping_from(float)", || Uint::<B, L>::wrapping_from(fv)) {
                        // the wrapped value for floats is unspecified by the property; only canonical form
                        if let Class::Value(e) = &want {
                            m.eq_uint(&format!("{tag}.wrapping_from"), &v, e);
                        } else {
                            m.canonical(&v);
                        }
                    }
                }};
            }
            if op == "from_f64" {
                run!(f);
            } else {
                run!(f32::from_bits(a[0].n() as u32));
            }
        }
        _ => panic!("harness: unknown op {op}"),
    }
}

// -------------------------------------------------------------------------- exhaustive f32 sweep (thorough tier)

/// floor(f + 1/2) for a finite non-negative f32, in u128 (f32 values are < 2^128).
fn round_f32(f: f32) -> u128 {
    let bits = f.to_bits();
    let be = ((bits >> 23) & 0xff) as i32;
    let frac = u128::from(bits & 0x7f_ffff);
    let (mant, e) = if be == 0 { (frac, -149) } else { (frac | (1 << 23), be - 150) };
    if e >= 0 {
        mant << e
    } else {
        let s = (-e) as u32;
        if s > 40 {
            0
        } else {
            ((mant << 1) + (1u128 << s)) >> (s + 1)
        }
    }
}

fn sweep_f32<const B: usize, const L: usize>(m: &mut Mon, shard: u64, nshards: u64) {
    let total: u64 = 1 << 32;
    let lo = total * shard / nshards;
    let hi = total * (shard + 1) / nshards;
    let lim: Option<u128> = if B >= 128 { None } else { Some(1u128 << B) };
    let mut n = 0u64;
    let mut nontrivial = 0u64;
    for pattern in lo..hi {
        let f = f32::from_bits(pattern as u32);
        if f.is_finite() && f != 0.0 {
            nontrivial += 1;
        }
        let got = Uint::<B, L>::try_from(f);
        let ok = if f.is_nan() {
            matches!(got, Err(ToUintError::NotANumber(_)))
        } else if f < 0.0 {
            matches!(got, Err(ToUintError::ValueNegative(..)))
        } else if f.is_infinite() {
            matches!(got, Err(ToUintError::ValueTooLarge(..)))
        } else {
            let r = round_f32(f);
            if lim.map_or(false, |l| r >= l) {
                matches!(got, Err(ToUintError::ValueTooLarge(..)))
            } else {
                match got {
                    Ok(v) => {
                        let l = v.as_limbs();
                        let lo64 = l.first().copied().unwrap_or(0);
                        let hi64 = l.get(1).copied().unwrap_or(0);
                        let rest_zero = l.iter().skip(2).all(|&x| x == 0);
                        rest_zero && (u128::from(hi64) << 64 | u128::from(lo64)) == r
                    }
                    Err(_) => false,
                }
            }
        };
        n += 1;
        if !ok {
            // route through the monitored path to get a proper record
            m.case_always("from_f32", B, vec![Arg::N(u128::from(pattern))]);
        }
    }
    m.bump(n, nontrivial);
    m.note_add(&format!("f32_sweep_patterns_bits_{B}"), n);
}

// -------------------------------------------------------------------------- workloads

fn f64_patterns(r: &mut Rng, out: &mut Vec<u64>) {
    // sign x all 2048 exponents x mantissa patterns
    let mants = [0u64, 1, 1 << 51, (1 << 51) + 1, (1 << 51) - 1, (1 << 52) - 1, (1 << 52) - 2, 0x000a_aaaa_aaaa_aaaa, 0x0005_5555_5555_5555];
    for sign in [0u64, 1] {
        for e in 0..2048u64 {
            for &mt in &mants {
                out.push((sign << 63) | (e << 52) | mt);
            }
            out.push((sign << 63) | (e << 52) | (r.u64() & ((1 << 52) - 1)));
            out.push((sign << 63) | (e << 52) | (gen::alpha_limb(r) & ((1 << 52) - 1)));
        }
    }
}

fn workload(m: &mut Mon, bits: usize) {
    let l = gen::nlimbs(bits);
    // ---- float -> Uint, structured grid
    let mut r = m.stream("c18.f64", bits);
    let mut pats: Vec<u64> = vec![];
    f64_patterns(&mut r, &mut pats);
    for p in &pats {
        if !m.keep() {
            continue;
        }
        m.case("from_f64", bits, vec![Arg::N(u128::from(*p))]);
    }
    if !m.is_light() {
        m.mark_exhaustive(format!("BITS={bits}: both signs x all 2048 f64 exponents x 11 mantissa patterns"));
    }
    let mut specials: Vec<f64> = vec![0.0, -0.0, f64::INFINITY, f64::NEG_INFINITY, f64::NAN, -f64::NAN, f64::MIN_POSITIVE, 5e-324, -5e-324,
        0.49999999999999994, 0.5, 0.5000000000000001, 1.0, 1.4999999999999998, 1.5, 2.5, 3.5, -0.5, -0.49999999999999994, -1.0,
        4503599627370495.5, 4503599627370496.0, 4503599627370497.0, 4503599627370498.0, 9007199254740991.0, 9007199254740992.0,
        9007199254740993.0, 9007199254740994.0, f64::MAX, f64::MIN];
    // 2^BITS - 1/2, 2^BITS - 1, 2^BITS and float neighbours
    let p = (bits as f64).exp2();
    if p.is_finite() {
        for f in [p, f64::from_bits(p.to_bits() - 1), f64::from_bits(p.to_bits() + 1), p - 0.5, p - 1.0, p / 2.0, p * 2.0] {
            specials.push(f);
        }
    }
    for f in &specials {
        m.case("from_f64", bits, vec![Arg::N(u128::from(f.to_bits()))]);
        m.case("from_f32", bits, vec![Arg::N(u128::from((*f as f32).to_bits()))]);
    }
    // integers in [2^52, 2^53) odd and even; k + 1/2
    for i in 0..m.iters(3000) {
        if i % 512 == 0 && m.time_up() {
            return;
        }
        let k = (1u64 << 52) | (r.u64() & ((1 << 52) - 1));
        m.case("from_f64", bits, vec![Arg::N(u128::from((k as f64).to_bits()))]);
        m.case("from_f64", bits, vec![Arg::N(u128::from(((k | 1) as f64).to_bits()))]);
        let h = (r.u64() >> r.range(12, 63)) as f64 + 0.5;
        m.case("from_f64", bits, vec![Arg::N(u128::from(h.to_bits()))]);
        m.case("from_f64", bits, vec![Arg::N(u128::from(r.u64()))]);
        m.case("from_f32", bits, vec![Arg::N(u128::from(r.u64() as u32))]);
        let hf = (r.u64() >> r.range(41, 63)) as f32 + 0.5;
        m.case("from_f32", bits, vec![Arg::N(u128::from(hf.to_bits()))]);
    }
    // f32: all exponents x mantissa patterns
    for sign in [0u32, 1] {
        for e in 0..256u32 {
            for mt in [0u32, 1, 1 << 22, (1 << 22) + 1, (1 << 23) - 1, 0x2a_aaaa, r.u64() as u32 & 0x7f_ffff] {
                m.case("from_f32", bits, vec![Arg::N(u128::from((sign << 31) | (e << 23) | mt))]);
            }
        }
    }
    if bits == 0 {
        m.case("to_float", bits, vec![au(&[])]);
        return;
    }
    // ---- Uint -> float
    let mut vals = gen::boundary(bits);
    let mut r = m.stream("c18.to", bits);
    for _ in 0..m.iters(1500) {
        // 53 / 54 / 24 / 25 / 64 / 65-bit heads with all-zero / all-one / random tails
        let len = r.range(1, bits);
        let head = *r.pick(&[24usize, 25, 53, 54, 55, 64, 65]);
        let mut v = gen::with_bit_len(&mut r, len, bits);
        if len > head {
            let low = len - head;
            let mode = r.below(4);
            for j in 0..low {
                match mode {
                    0 => v[j / 64] &= !(1 << (j % 64)),
                    1 => v[j / 64] |= 1 << (j % 64),
                    _ => {}
                }
            }
            if mode == 3 {
                // exactly half an ulp: head bit below the mantissa set, rest zero
                for j in 0..low {
                    v[j / 64] &= !(1 << (j % 64));
                }
                let j = low - 1;
                v[j / 64] |= 1 << (j % 64);
            }
        }
        vals.push(v);
    }
    for k in [127usize, 128, 129, 1023, 1024, 1025] {
        if k <= bits {
            vals.push(gen::ones(k, bits));
            // 2^k - 2^(k-25), 2^k - 2^(k-54): around the infinity rounding range
            for d in [24usize, 25, 53, 54] {
                if k > d {
                    let v = big::p2(k) - big::p2(k - d);
                    if big::fits(&v, bits) {
                        vals.push(big::limbs(&v, l));
                    }
                    let v = big::p2(k) - big::p2(k - d) - 1u8;
                    if big::fits(&v, bits) {
                        vals.push(big::limbs(&v, l));
                    }
                }
            }
        }
    }
    vals.sort_by(|a, b| big::big(a).cmp(&big::big(b)));
    vals.dedup();
    for (i, v) in vals.iter().enumerate() {
        if !m.keep() {
            continue;
        }
        m.case("to_float", bits, vec![au(v)]);
        if i + 1 < vals.len() {
            m.case("to_float_mono", bits, vec![au(v), au(&vals[i + 1])]);
        }
        // adjacent integers
        let bv = big::big(v);
        if big::fits(&(&bv + 1u8), bits) {
            m.case("to_float_mono", bits, vec![au(v), au(&big::limbs(&(&bv + 1u8), l))]);
        }
    }
}

fn main() {
    let mut m = Mon::new("C18", dispatch);
    if !m.replay_if_requested() {
        if let Some(w) = m.cfg.extra.get("f32sweep").cloned() {
            let (s, n) = (m.cfg.shard, m.cfg.nshards);
            match w.as_str() {
                "7" => sweep_f32::<7, 1>(&mut m, s, n),
                "64" => sweep_f32::<64, 1>(&mut m, s, n),
                "128" => sweep_f32::<128, 2>(&mut m, s, n),
                "25" => sweep_f32::<25, 1>(&mut m, s, n),
                _ => panic!("harness: f32sweep width not instantiated"),
            }
            if !m.is_light() {
                m.mark_exhaustive(format!("all 2^32 f32 bit patterns through try_from at BITS={w} (this shard: its slice)"));
            }
        } else {
            for &bits in WIDTHS {
                if m.width_enabled(bits) {
                    workload(&mut m, bits);
                }
            }
        }
    }
    m.finish();
}
