//! C01 — addition, subtraction, negation, abs_diff, iterator sums vs BigUint.

use num_bigint::BigUint;
use ruint::Uint;
use vmon::{an, au, big, gen, uint, Arg, Mon};

vmon::widths!(exec; 0, 1, 2, 3, 4, 7, 8, 16, 31, 32, 60, 63, 64, 65, 100, 127, 128, 129, 160, 192,
    250, 255, 256, 257, 320, 384, 512, 521, 1024, 1088, 2048, 4096, 4160, 16448);

fn exec<const B: usize, const L: usize>(m: &mut Mon, op: &str, a: &[Arg]) {
    match op {
        "add" => {
            let (x, y): (Uint<B, L>, Uint<B, L>) = (uint(a[0].u()), uint(a[1].u()));
            let s = big::big(a[0].u()) + big::big(a[1].u());
            let ovf = !big::fits(&s, B);
            let w = big::wrap(&s, B);
            m.nontrivial(!(gen::is_zero(a[0].u()) && gen::is_zero(a[1].u())));
            m.obs(|| format!("wrapped={} overflow={}", big::hex(&w), ovf));
            if let Some((v, f)) = m.must(|| x.overflowing_add(y)) {
                m.eq_uint("overflowing_add.value", &v, &w);
                m.eq("overflowing_add.flag", &f, &ovf);
            }
            if let Some(v) = m.must(|| x.wrapping_add(y)) {
                m.eq_uint("wrapping_add", &v, &w);
            }
            if let Some(v) = m.must(|| x.checked_add(y)) {
                match v {
                    Some(v) => {
                        m.eq("checked_add.some", &true, &!ovf);
                        m.eq_uint("checked_add.value", &v, &w);
                    }
                    None => {
                        m.eq("checked_add.none", &true, &ovf);
                    }
                }
            }
            if let Some(v) = m.must(|| x.saturating_add(y)) {
                let e = if ovf { gen::max(B) } else { w.clone() };
                m.eq_uint("saturating_add", &v, &e);
            }
            // operator shapes
            if let Some(v) = m.must(|| x + y) {
                m.eq_uint("op+.vv", &v, &w);
            }
            if let Some(v) = m.must(|| x + &y) {
                m.eq_uint("op+.vr", &v, &w);
            }
            if let Some(v) = m.must(|| &x + y) {
                m.eq_uint("op+.rv", &v, &w);
            }
            if let Some(v) = m.must(|| &x + &y) {
                m.eq_uint("op+.rr", &v, &w);
            }
            if a[0].u() == a[1].u() {
                // both operands are the very same object
                if let Some(v) = m.must(|| &x + &x) {
                    m.eq_uint("op+.rr.alias", &v, &w);
                }
            }
            if let Some(v) = m.must(|| {
                let mut z = x;
                z += y;
                z
            }) {
                m.eq_uint("op+=.v", &v, &w);
            }
            if let Some(v) = m.must(|| {
                let mut z = x;
                z += &y;
                z
            }) {
                m.eq_uint("op+=.r", &v, &w);
            }
        }
        "sub" => {
            let (x, y): (Uint<B, L>, Uint<B, L>) = (uint(a[0].u()), uint(a[1].u()));
            let (bx, by) = (big::big(a[0].u()), big::big(a[1].u()));
            let ovf = bx < by;
            let d = if ovf { big::p2(B) + &bx - &by } else { &bx - &by };
            let w = big::wrap(&d, B);
            m.nontrivial(!(gen::is_zero(a[0].u()) && gen::is_zero(a[1].u())));
            m.obs(|| format!("wrapped={} overflow={}", big::hex(&w), ovf));
            if let Some((v, f)) = m.must(|| x.overflowing_sub(y)) {
                m.eq_uint("overflowing_sub.value", &v, &w);
                m.eq("overflowing_sub.flag", &f, &ovf);
            }
            if let Some(v) = m.must(|| x.wrapping_sub(y)) {
                m.eq_uint("wrapping_sub", &v, &w);
            }
            if let Some(v) = m.must(|| x.checked_sub(y)) {
                match v {
                    Some(v) => {
                        m.eq("checked_sub.some", &true, &!ovf);
                        m.eq_uint("checked_sub.value", &v, &w);
                    }
                    None => {
                        m.eq("checked_sub.none", &true, &ovf);
                    }
                }
            }
            if let Some(v) = m.must(|| x.saturating_sub(y)) {
                let e = if ovf { gen::zero(B) } else { w.clone() };
                m.eq_uint("saturating_sub", &v, &e);
            }
            if let Some(v) = m.must(|| x.abs_diff(y)) {
                let e = if ovf { &by - &bx } else { &bx - &by };
                m.eq_uint("abs_diff", &v, &big::limbs(&e, L));
            }
            if let Some(v) = m.must(|| x - y) {
                m.eq_uint("op-.vv", &v, &w);
            }
            if let Some(v) = m.must(|| x - &y) {
                m.eq_uint("op-.vr", &v, &w);
            }
            if let Some(v) = m.must(|| &x - y) {
                m.eq_uint("op-.rv", &v, &w);
            }
            if let Some(v) = m.must(|| &x - &y) {
                m.eq_uint("op-.rr", &v, &w);
            }
            if a[0].u() == a[1].u() {
                if let Some(v) = m.must(|| &x - &x) {
                    m.eq_uint("op-.rr.alias", &v, &w);
                }
            }
            if let Some(v) = m.must(|| {
                let mut z = x;
                z -= y;
                z
            }) {
                m.eq_uint("op-=.v", &v, &w);
            }
            if let Some(v) = m.must(|| {
                let mut z = x;
                z -= &y;
                z
            }) {
                m.eq_uint("op-=.r", &v, &w);
            }
        }
        "neg" => {
            let x: Uint<B, L> = uint(a[0].u());
            let bx = big::big(a[0].u());
            let ovf = !big::is_zero(&bx);
            let w = if ovf { big::wrap(&(big::p2(B) - &bx), B) } else { gen::zero(B) };
            m.nontrivial(ovf);
            m.obs(|| format!("neg={} overflow={}", big::hex(&w), ovf));
            if let Some((v, f)) = m.must(|| x.overflowing_neg()) {
                m.eq_uint("overflowing_neg.value", &v, &w);
                m.eq("overflowing_neg.flag", &f, &ovf);
            }
            if let Some(v) = m.must(|| x.wrapping_neg()) {
                m.eq_uint("wrapping_neg", &v, &w);
            }
            if let Some(v) = m.must(|| x.checked_neg()) {
                match v {
                    Some(v) => {
                        m.eq("checked_neg.some", &true, &!ovf);
                        m.eq_uint("checked_neg.value", &v, &w);
                    }
                    None => {
                        m.eq("checked_neg.none", &true, &ovf);
                    }
                }
            }
            if let Some(v) = m.must(|| -x) {
                m.eq_uint("op-neg.v", &v, &w);
            }
            if let Some(v) = m.must(|| -&x) {
                m.eq_uint("op-neg.r", &v, &w);
            }
        }
        "sum" | "sum_rep" => {
            // sum_rep: (v, w, n) stands for the n terms v, w, v, w, ...
            let terms: Vec<&[u64]> = if op == "sum_rep" { (0..a[2].us()).map(|i| a[i % 2].u()).collect() } else { a.iter().map(|x| x.u()).collect() };
            let xs: Vec<Uint<B, L>> = terms.iter().map(|x| uint(x)).collect();
            let mut s = BigUint::default();
            for x in &terms {
                s += big::big(x);
            }
            let w = big::wrap(&s, B);
            m.nontrivial(terms.len() >= 2 && terms.iter().filter(|x| !gen::is_zero(x)).count() >= 2);
            m.obs(|| format!("sum of {} terms = {}", terms.len(), big::hex(&w)));
            if let Some(v) = m.must(|| xs.iter().copied().sum::<Uint<B, L>>()) {
                m.eq_uint("sum.values", &v, &w);
            }
            if let Some(v) = m.must(|| xs.iter().sum::<Uint<B, L>>()) {
                m.eq_uint("sum.refs", &v, &w);
            }
            // the same terms through iterators of other kinds (no / partial size_hint, adaptors, by_ref)
            macro_rules! each {
                ($label:literal, $e:expr) => {
                    if let Some(v) = m.must(|| $e) {
                        m.eq_uint(concat!("sum.", $label), &v, &w);
                    }
                };
            }
            vmon::iter_kinds!(xs, Uint<B, L>, sum; each);
        }
        _ => panic!("harness: unknown op {op}"),
    }
}

fn neg_limbs(v: &[u64], bits: usize) -> Vec<u64> {
    let b = big::big(v);
    if big::is_zero(&b) {
        gen::zero(bits)
    } else {
        big::wrap(&(big::p2(bits) - b), bits)
    }
}

fn not_limbs(v: &[u64], bits: usize) -> Vec<u64> {
    gen::canon(v.iter().map(|x| !x).collect(), bits)
}

fn pair(m: &mut Mon, bits: usize, a: &[u64], b: &[u64]) {
    m.case("add", bits, vec![au(a), au(b)]);
    m.case("sub", bits, vec![au(a), au(b)]);
}

fn workload(m: &mut Mon, bits: usize) {
    let n = gen::nlimbs(bits);
    // Exhaustive sub-space: all operand pairs at BITS <= 4.
    if bits <= 4 {
        for a in 0..(1u64 << bits) {
            m.case("neg", bits, vec![au(&gen::small(a, bits))]);
            for b in 0..(1u64 << bits) {
                if !m.keep() {
                    continue;
                }
                pair(m, bits, &gen::small(a, bits), &gen::small(b, bits));
            }
        }
        if !m.is_light() {
            m.mark_exhaustive(format!("all operand pairs for add/sub/neg at BITS={bits}"));
        }
    }
    // Directed corpus: boundary values against their complements and neighbours.
    let bd = gen::boundary(bits);
    let mut r = m.stream("c01.directed", bits);
    for a in &bd {
        if !m.keep() {
            continue;
        }
        m.case("neg", bits, vec![au(a)]);
        let na = not_limbs(a, bits);
        let nega = neg_limbs(a, bits);
        let mut partners = vec![a.clone(), na.clone(), nega.clone(), gen::zero(bits), gen::max(bits)];
        if bits > 0 {
            partners.push(gen::small(1, bits));
            // !a + 1 + 1, -a - 1: sums equal to 2^BITS +- 1
            let mut p = nega.clone();
            p[0] = p[0].wrapping_add(1);
            partners.push(gen::canon(p, bits));
            let mut p = nega.clone();
            p[0] = p[0].wrapping_sub(1);
            partners.push(gen::canon(p, bits));
            for _ in 0..4 {
                partners.push(r.pick(&bd).clone());
            }
        }
        for b in &partners {
            pair(m, bits, a, b);
            pair(m, bits, b, a);
        }
    }
    if bits == 0 {
        m.case("sum", bits, vec![au(&[]), au(&[])]);
        return;
    }
    m.case("sum", bits, vec![]); // the empty sum is zero
    m.case("sum", bits, vec![au(&gen::max(bits))]);
    // long sums: hundreds of carries out of every limb column (and past the 8-, 16-bit counter sizes)
    if !m.is_light() {
        let mut r = m.stream("c01.longsum", bits);
        for n in [255usize, 256, 257, 258, 300, 511, 512, 513, 1025, if bits <= 512 { 65537 } else { 2049 }] {
            m.case("sum_rep", bits, vec![au(&gen::max(bits)), au(&gen::max(bits)), an(n)]);
            m.case("sum_rep", bits, vec![au(&gen::max(bits)), au(&gen::small(1, bits)), an(n)]);
            m.case("sum_rep", bits, vec![au(&gen::hostile(&mut r, bits)), au(&gen::hostile(&mut r, bits)), an(n)]);
            m.case("sum_rep", bits, vec![au(&gen::uniform(&mut r, bits)), au(&gen::alphabet(&mut r, bits)), an(n)]);
        }
    }
    // Carry chains: all-ones limbs in the middle, carry injected at the bottom.
    for lo in 0..n {
        for hi in lo..n {
            if !m.keep() {
                continue;
            }
            let mut a = gen::zero(bits);
            for x in &mut a[lo..=hi] {
                *x = u64::MAX;
            }
            let a = gen::canon(a, bits);
            let mut b = gen::zero(bits);
            b[lo] = 1;
            let b = gen::canon(b, bits);
            pair(m, bits, &a, &b);
            pair(m, bits, &b, &a);
            // borrow chain: (2^(64 hi+64)) - 2^(64 lo) style
            let mut c = gen::zero(bits);
            if hi + 1 < n {
                c[hi + 1] = 1;
            }
            let c = gen::canon(c, bits);
            pair(m, bits, &c, &b);
            if n > 24 && hi > lo + 2 && hi + 3 < n {
                // thin out the quadratic grid on very wide types
                continue;
            }
        }
    }
    // Random hostile pairs.
    let mut r = m.stream("c01.random", bits);
    let iters = m.iters(if bits <= 256 { 6000 } else if bits <= 1024 { 2500 } else { 800 });
    for i in 0..iters {
        if i % 256 == 0 && m.time_up() {
            break;
        }
        let a = gen::hostile(&mut r, bits);
        let b = match r.below(6) {
            0 => not_limbs(&a, bits),
            1 => neg_limbs(&a, bits),
            2 => a.clone(),
            _ => gen::hostile(&mut r, bits),
        };
        pair(m, bits, &a, &b);
        if i % 4 == 0 {
            m.case("neg", bits, vec![au(&a)]);
        }
        if i % 8 == 0 {
            let k = r.range(0, 9);
            let mut terms = vec![au(&a), au(&b)];
            for _ in 0..k {
                terms.push(au(&gen::hostile(&mut r, bits)));
            }
            terms.truncate(k.max(1));
            m.case("sum", bits, terms);
        }
    }
}

fn main() {
    let mut m = Mon::new("C01", dispatch);
    if !m.replay_if_requested() {
        loop {
            for &bits in WIDTHS {
                if m.width_enabled(bits) {
                    workload(&mut m, bits);
                }
            }
            if !m.another_light_pass() {
                break;
            }
        }
    }
    m.finish();
}
