//! C04 workload (under construction).
fn main() {}
