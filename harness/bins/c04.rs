//! C04 — canonical values and value-following Eq / Hash / Ord.
//!
//! (a) closure walk: histories of safe public operations whose results are fed
//!     back as operands (and migrate between widths); every produced value must
//!     be canonical; sampled pairs must compare, hash and order like integers.
//! (b) rejecting constructors on out-of-range limbs.
//! The ill-formed (BITS, LIMBS) grid (c) is a compile-probe monitor in
//! /verif/probes, driven by ./check.

use num_bigint::BigUint;
use num_traits::Zero;
use ruint::{ToUintError, Uint};
use std::{
    cmp::Ordering,
    collections::hash_map::DefaultHasher,
    hash::{Hash, Hasher},
    str::FromStr,
};
use vmon::{an, au, big, gen, rng::Rng, uint, Arg, Mon};

vmon::widths!(exec; 0, 1, 2, 3, 7, 31, 60, 63, 64, 65, 100, 127, 128, 129, 192, 250, 255, 256, 257, 521);

const XW: &[usize] = &[0, 1, 7, 63, 64, 65, 128, 129, 256];

fn cross_go<const B: usize, const L: usize, const D: usize, const LD: usize>(m: &mut Mon, x: Uint<B, L>) {
    if let Some(v) = m.must_in("wrapping_from(Uint)", || Uint::<D, LD>::wrapping_from(x)) {
        m.produce(&v);
    }
    if let Some(v) = m.must_in("saturating_from(Uint)", || Uint::<D, LD>::saturating_from(x)) {
        m.produce(&v);
    }
    if let Some(v) = m.must_in("wrapping_to::<Uint>", || x.wrapping_to::<Uint<D, LD>>()) {
        m.produce(&v);
    }
    if let Some(v) = m.must_in("saturating_to::<Uint>", || x.saturating_to::<Uint<D, LD>>()) {
        m.produce(&v);
    }
    if let Some(Err(ToUintError::ValueTooLarge(_, v))) = m.must_in("uint_try_from", || <Uint<D, LD> as ruint::UintTryFrom<Uint<B, L>>>::uint_try_from(x)) {
        m.produce(&v);
    }
    // the widening square with this destination as result type: only Uint<2 * BITS> is the product type, every
    // other size is refused at run time (documented); whatever comes back must be a canonical value
    if D == 2 * B {
        if let Some(v) = m.must_in("widening_mul", || x.widening_mul::<B, L, D, LD>(x)) {
            m.produce(&v);
        }
    } else {
        match m.call(|| x.widening_mul::<B, L, D, LD>(x)) {
            Ok(v) => {
                m.produce(&v);
                m.fail("widening_mul.bad-size-accepted", &format!("panic: Uint<{D}> is not the product type of Uint<{B}> x Uint<{B}>"), &format!("{:x?}", v.as_limbs()));
            }
            Err(_) => {}
        }
    }
}

macro_rules! cross_dispatch {
    ([$($d:literal),*]) => {
        fn cross<const B: usize, const L: usize>(m: &mut Mon, dst: usize, x: Uint<B, L>) {
            match dst {
                $($d => cross_go::<B, L, $d, { ($d + 63) / 64 }>(m, x),)*
                _ => panic!("harness: destination width {dst} not in grid"),
            }
        }
    };
}
cross_dispatch!([0, 1, 7, 63, 64, 65, 128, 129, 256]);

fn hash_of<T: Hash>(v: &T) -> u64 {
    let mut h = DefaultHasher::new();
    v.hash(&mut h);
    h.finish()
}

fn exec<const B: usize, const L: usize>(m: &mut Mon, op: &str, a: &[Arg]) {
    type U<const B: usize, const L: usize> = Uint<B, L>;
    // produce one value / an optional value / several
    macro_rules! one {
        ($label:literal, $e:expr) => {
            if let Some(v) = m.must_in($label, || $e) {
                m.produce(&v);
            }
        };
    }
    macro_rules! opt {
        ($label:literal, $e:expr) => {
            if let Some(Some(v)) = m.must_in($label, || $e) {
                m.produce(&v);
            }
        };
    }
    match op {
        // ------------------------------------------------ binary operations on pool values
        "arith2" => {
            let (x, y): (U<B, L>, U<B, L>) = (uint(a[0].u()), uint(a[1].u()));
            one!("wrapping_add", x.wrapping_add(y));
            one!("wrapping_sub", x.wrapping_sub(y));
            one!("wrapping_mul", x.wrapping_mul(y));
            one!("saturating_add", x.saturating_add(y));
            one!("saturating_sub", x.saturating_sub(y));
            one!("saturating_mul", x.saturating_mul(y));
            one!("overflowing_add", x.overflowing_add(y).0);
            one!("overflowing_sub", x.overflowing_sub(y).0);
            one!("overflowing_mul", x.overflowing_mul(y).0);
            opt!("checked_add", x.checked_add(y));
            opt!("checked_sub", x.checked_sub(y));
            opt!("checked_mul", x.checked_mul(y));
            one!("abs_diff", x.abs_diff(y));
            one!("op+", x + y);
            one!("op-", x - y);
            one!("op*", x * y);
            one!("op&", x & y);
            one!("op|", x | y);
            one!("op^", x ^ y);
            one!("min", x.min(y));
            one!("max", x.max(y));
            if !gen::is_zero(a[1].u()) {
                one!("op/", x / y);
                one!("op%", x % y);
                one!("div_ceil", x.div_ceil(y));
                if let Some((q, r)) = m.must_in("div_rem", || x.div_rem(y)) {
                    m.produce(&q);
                    m.produce(&r);
                }
            }
            opt!("checked_div", x.checked_div(y));
            opt!("checked_rem", x.checked_rem(y));
            opt!("checked_next_multiple_of", x.checked_next_multiple_of(y));
            one!("gcd", x.gcd(y));
            opt!("lcm", x.lcm(y));
            if let Some((g, s, t, _)) = m.must_in("gcd_extended", || x.gcd_extended(y)) {
                m.produce(&g);
                m.produce(&s);
                m.produce(&t);
            }
            one!("reduce_mod", x.reduce_mod(y));
            opt!("inv_mod", x.inv_mod(y));
            one!("Sum", [x, y, x].iter().sum::<U<B, L>>());
            one!("Product", [x, y].iter().product::<U<B, L>>());
        }
        "arith3" => {
            let (x, y, z): (U<B, L>, U<B, L>, U<B, L>) = (uint(a[0].u()), uint(a[1].u()), uint(a[2].u()));
            one!("add_mod", x.add_mod(y, z));
            one!("mul_mod", x.mul_mod(y, z));
            if B <= 256 || big::big(a[1].u()).bits() <= 64 {
                one!("pow_mod", x.pow_mod(y, z));
            }
        }
        "pow" => {
            // exponent kept small enough to be cheap; any magnitude is fine for canonicity
            let (x, e): (U<B, L>, U<B, L>) = (uint(a[0].u()), uint(a[1].u()));
            one!("pow", x.pow(e));
            one!("overflowing_pow", x.overflowing_pow(e).0);
            one!("saturating_pow", x.saturating_pow(e));
            opt!("checked_pow", x.checked_pow(e));
        }
        // ------------------------------------------------ unary / scalar-parameter operations
        "unary" => {
            let x: U<B, L> = uint(a[0].u());
            let s = a[1].us();
            one!("wrapping_neg", x.wrapping_neg());
            one!("overflowing_neg", x.overflowing_neg().0);
            opt!("checked_neg", x.checked_neg());
            one!("op-neg", -x);
            one!("op!", !x);
            one!("not", x.not());
            one!("reverse_bits", x.reverse_bits());
            opt!("checked_next_power_of_two", x.checked_next_power_of_two());
            opt!("inv_ring", x.inv_ring());
            one!("op<<", x << s);
            one!("op>>", x >> s);
            one!("wrapping_shl", x.wrapping_shl(s));
            one!("wrapping_shr", x.wrapping_shr(s));
            one!("overflowing_shl", x.overflowing_shl(s).0);
            one!("overflowing_shr", x.overflowing_shr(s).0);
            one!("saturating_shl", x.saturating_shl(s));
            opt!("checked_shl", x.checked_shl(s));
            opt!("checked_shr", x.checked_shr(s));
            one!("arithmetic_shr", x.arithmetic_shr(s));
            one!("rotate_left", x.rotate_left(s));
            one!("rotate_right", x.rotate_right(s));
            one!("set_bit(true)", {
                let mut z = x;
                z.set_bit(s, true);
                z
            });
            one!("set_bit(false)", {
                let mut z = x;
                z.set_bit(s, false);
                z
            });
            if s >= 1 && s <= B + 2 {
                one!("root", x.root(s));
            }
            one!("op<<Uint", x << x);
            one!("op>>Uint", x >> x);
        }
        // ------------------------------------------------ constants
        "consts" => {
            one!("ZERO", U::<B, L>::ZERO);
            one!("ONE", U::<B, L>::ONE);
            one!("MIN", U::<B, L>::MIN);
            one!("MAX", U::<B, L>::MAX);
            one!("default", U::<B, L>::default());
            one!("Bits::ZERO", ruint::Bits::<B, L>::ZERO.into_inner());
        }
        // ------------------------------------------------ conversions from primitives and floats
        "from_prims" => {
            let v = a[0].n();
            macro_rules! prim {
                ($t:ty) => {
                    let p = v as $t;
                    one!("wrapping_from", U::<B, L>::wrapping_from(p));
                    one!("saturating_from", U::<B, L>::saturating_from(p));
                    if let Some(r) = m.must_in("try_from", || U::<B, L>::try_from(p)) {
                        match r {
                            Ok(x) | Err(ToUintError::ValueTooLarge(_, x)) | Err(ToUintError::ValueNegative(_, x)) => m.produce(&x),
                            Err(ToUintError::NotANumber(_)) => {}
                        }
                    }
                };
            }
            prim!(u8);
            prim!(u16);
            prim!(u32);
            prim!(u64);
            prim!(u128);
            prim!(usize);
            prim!(i8);
            prim!(i16);
            prim!(i32);
            prim!(i64);
            prim!(i128);
            prim!(isize);
            one!("from(bool)", U::<B, L>::wrapping_from(v & 1 == 1));
        }
        "from_floats" => {
            let f = f64::from_bits(a[0].n() as u64);
            for fv in [f, -f] {
                one!("wrapping_from(f64)", U::<B, L>::wrapping_from(fv));
                one!("saturating_from(f64)", U::<B, L>::saturating_from(fv));
                one!("wrapping_from(f32)", U::<B, L>::wrapping_from(fv as f32));
                one!("saturating_from(f32)", U::<B, L>::saturating_from(fv as f32));
                if let Some(r) = m.must_in("try_from(f64)", || U::<B, L>::try_from(fv)) {
                    match r {
                        Ok(x) | Err(ToUintError::ValueTooLarge(_, x)) | Err(ToUintError::ValueNegative(_, x)) => m.produce(&x),
                        Err(ToUintError::NotANumber(_)) => {}
                    }
                }
            }
            opt!("approx_pow2", U::<B, L>::approx_pow2(f));
            opt!("approx_pow2(small)", U::<B, L>::approx_pow2(f % (B as f64 + 2.0)));
        }
        // ------------------------------------------------ decoders
        "from_bytes" => {
            let b = a[0].b();
            opt!("try_from_be_slice", U::<B, L>::try_from_be_slice(b));
            opt!("try_from_le_slice", U::<B, L>::try_from_le_slice(b));
        }
        "from_text" => {
            let s = a[0].s();
            let radix = a[1].n() as u64;
            if let Some(Ok(v)) = m.must_in("from_str_radix", || U::<B, L>::from_str_radix(s, radix)) {
                m.produce(&v);
            }
            if let Some(Ok(v)) = m.must_in("from_str", || U::<B, L>::from_str(s)) {
                m.produce(&v);
            }
        }
        "from_digits" => {
            let d = a[0].u();
            let base = a[1].n() as u64;
            if let Some(Ok(v)) = m.must_in("from_base_be", || U::<B, L>::from_base_be(base, d.iter().copied())) {
                m.produce(&v);
            }
            if let Some(Ok(v)) = m.must_in("from_base_le", || U::<B, L>::from_base_le(base, d.iter().copied())) {
                m.produce(&v);
            }
        }
        // ------------------------------------------------ (b) constructors that must reject or mask
        "from_limbs" => {
            let s = a[0].u();
            let bv = big::big(s);
            let fits = big::fits(&bv, B);
            if let Some((v, f)) = m.must_in("overflowing_from_limbs_slice", || U::<B, L>::overflowing_from_limbs_slice(s)) {
                m.produce(&v);
                m.eq("overflowing_from_limbs_slice.flag", &f, &!fits);
            }
            one!("wrapping_from_limbs_slice", U::<B, L>::wrapping_from_limbs_slice(s));
            one!("saturating_from_limbs_slice", U::<B, L>::saturating_from_limbs_slice(s));
            if let Some(r) = m.must_in("checked_from_limbs_slice", || U::<B, L>::checked_from_limbs_slice(s)) {
                m.eq("checked_from_limbs_slice.rejects", &r.is_none(), &!fits);
                if let Some(v) = r {
                    m.produce(&v);
                }
            }
            if fits {
                one!("from_limbs_slice", U::<B, L>::from_limbs_slice(s));
            } else {
                m.must_panic(|| U::<B, L>::from_limbs_slice(s), "out-of-range limbs");
            }
            if s.len() == L {
                let mut arr = [0u64; L];
                arr.copy_from_slice(s);
                if fits {
                    one!("from_limbs", U::<B, L>::from_limbs(arr));
                } else {
                    m.must_panic(|| U::<B, L>::from_limbs(arr), "out-of-range limbs");
                }
            }
        }
        // ------------------------------------------------ random / arbitrary generators
        "generators" => {
            let seed = a[0].n() as u64;
            {
                use rand_08::{distributions::Standard, prelude::Distribution, Rng as _, SeedableRng};
                let mut g = rand_08::rngs::StdRng::seed_from_u64(seed);
                one!("rand08.gen", g.gen::<U<B, L>>());
                one!("rand08.Standard.sample", Distribution::<U<B, L>>::sample(&Standard, &mut g));
            }
            {
                use rand_09::{distr::StandardUniform, prelude::Distribution, Rng as _, SeedableRng};
                let mut g = rand_09::rngs::StdRng::seed_from_u64(seed);
                one!("rand09.random", g.random::<U<B, L>>());
                one!("rand09.StandardUniform.sample", Distribution::<U<B, L>>::sample(&StandardUniform, &mut g));
                one!("random_with", U::<B, L>::random_with(&mut g));
                one!("randomize_with", {
                    let mut z = U::<B, L>::MAX;
                    z.randomize_with(&mut g);
                    z
                });
                one!("random", U::<B, L>::random());
                one!("randomize", {
                    let mut z = U::<B, L>::ZERO;
                    z.randomize();
                    z
                });
            }
            {
                use arbitrary::{Arbitrary, Unstructured};
                let mut r = Rng::new(seed, 7);
                let len = r.below(2 * ((B + 7) / 8) + 2);
                let mut bytes = r.bytes(len);
                if r.bool() {
                    bytes.iter_mut().for_each(|b| *b = 0xff);
                }
                let mut u = Unstructured::new(&bytes);
                if let Some(Ok(v)) = m.must_in("arbitrary", || U::<B, L>::arbitrary(&mut u)) {
                    m.produce(&v);
                }
            }
            {
                use proptest::{arbitrary::any, strategy::{Strategy, ValueTree}, test_runner::{Config, RngAlgorithm, TestRng, TestRunner}};
                let mut sb = [0u8; 32];
                sb[..8].copy_from_slice(&seed.to_le_bytes());
                let mut runner = TestRunner::new_with_rng(Config::default(), TestRng::from_seed(RngAlgorithm::ChaCha, &sb));
                if let Some(Ok(mut tree)) = m.must_in("proptest.new_tree", || any::<U<B, L>>().new_tree(&mut runner)) {
                    one!("proptest.current", tree.current());
                    for _ in 0..6 {
                        if !tree.simplify() {
                            break;
                        }
                        one!("proptest.simplified", tree.current());
                    }
                    if tree.complicate() {
                        one!("proptest.complicated", tree.current());
                    }
                }
                if let Some(Ok(tree)) = m.must_in("proptest.bits.new_tree", || any::<ruint::Bits<B, L>>().new_tree(&mut runner)) {
                    one!("proptest.bits.current", tree.current().into_inner());
                }
            }
            {
                use quickcheck::{Arbitrary, Gen};
                let mut g = Gen::new(1 + (seed % 200) as usize);
                one!("quickcheck.arbitrary", U::<B, L>::arbitrary(&mut g));
            }
        }
        // ------------------------------------------------ migration between widths
        "cross" => {
            let x: U<B, L> = uint(a[0].u());
            cross::<B, L>(m, a[1].us(), x);
        }
        // ------------------------------------------------ comparisons follow the numeric value
        "cmp" => {
            let (x, y): (U<B, L>, U<B, L>) = (uint(a[0].u()), uint(a[1].u()));
            let e: Ordering = big::big(a[0].u()).cmp(&big::big(a[1].u()));
            m.obs(|| format!("ordering={e:?}"));
            if let Some(v) = m.must_in("==", || x == y) {
                m.eq("eq", &v, &(e == Ordering::Equal));
            }
            if let Some(v) = m.must_in("!=", || x != y) {
                m.eq("ne", &v, &(e != Ordering::Equal));
            }
            if let Some((hx, hy)) = m.must_in("hash", || (hash_of(&x), hash_of(&y))) {
                if e == Ordering::Equal {
                    m.eq("hash.equal-values", &hx, &hy);
                }
            }
            if let Some(v) = m.must_in("cmp", || x.cmp(&y)) {
                m.eq("cmp", &v, &e);
            }
            if let Some(v) = m.must_in("partial_cmp", || x.partial_cmp(&y)) {
                m.eq("partial_cmp", &v, &Some(e));
            }
            if let Some(v) = m.must_in("<", || x < y) {
                m.eq("lt", &v, &(e == Ordering::Less));
            }
            if let Some(v) = m.must_in("<=", || x <= y) {
                m.eq("le", &v, &(e != Ordering::Greater));
            }
            if let Some(v) = m.must_in(">", || x > y) {
                m.eq("gt", &v, &(e == Ordering::Greater));
            }
            if let Some(v) = m.must_in(">=", || x >= y) {
                m.eq("ge", &v, &(e != Ordering::Less));
            }
            let (lo, hi) = if e == Ordering::Greater { (a[1].u(), a[0].u()) } else { (a[0].u(), a[1].u()) };
            if let Some(v) = m.must_in("min", || x.min(y)) {
                m.eq_uint("min", &v, lo);
            }
            if let Some(v) = m.must_in("max", || x.max(y)) {
                m.eq_uint("max", &v, hi);
            }
            if let Some(v) = m.must_in("is_zero", || x.is_zero()) {
                m.eq("is_zero", &v, &gen::is_zero(a[0].u()));
            }
        }
        _ => panic!("harness: unknown op {op}"),
    }
    let _ = BigUint::zero();
}

// ------------------------------------------------------------------------------------------- walk

struct Pools {
    widths: Vec<usize>,
    pools: Vec<Vec<Vec<u64>>>,
}

impl Pools {
    fn new(m: &mut Mon) -> Self {
        let widths = WIDTHS.to_vec();
        let pools = widths
            .iter()
            .map(|&b| {
                // widths the lane does not run are never picked: no pool is built for them (under the
                // interpreter building all twenty pools used up most of a quick shard's budget)
                if !m.width_enabled(b) {
                    return vec![];
                }
                let mut p = gen::boundary(b);
                p.truncate(24);
                p.push(gen::max(b));
                p
            })
            .collect();
        Pools { widths, pools }
    }
    fn idx(&self, bits: usize) -> Option<usize> {
        self.widths.iter().position(|&w| w == bits)
    }
    fn pick(&self, r: &mut Rng, bits: usize) -> Vec<u64> {
        let p = &self.pools[self.idx(bits).unwrap()];
        p[r.below(p.len())].clone()
    }
    fn absorb(&mut self, r: &mut Rng, produced: &mut Vec<(usize, Vec<u64>)>) -> usize {
        let mut fresh = 0;
        for (b, v) in produced.drain(..) {
            if let Some(i) = self.idx(b) {
                let p = &mut self.pools[i];
                if !p.contains(&v) {
                    fresh += 1;
                    if p.len() < 96 {
                        p.push(v);
                    } else {
                        let k = r.below(p.len());
                        p[k] = v;
                    }
                }
            }
        }
        fresh
    }
}

fn step(m: &mut Mon, pools: &mut Pools, r: &mut Rng, bits: usize) {
    let l = gen::nlimbs(bits);
    let a = pools.pick(r, bits);
    let b = pools.pick(r, bits);
    let (op, args): (&str, Vec<Arg>) = match r.below(24) {
        0..=5 => ("arith2", vec![au(&a), au(&b)]),
        6 | 7 => {
            let c = pools.pick(r, bits);
            ("arith3", vec![au(&a), au(&b), au(&c)])
        }
        8 => {
            let e = if r.bool() { gen::small(r.below(70) as u64, bits) } else { gen::with_bit_len(r, bits.min(12), bits) };
            ("pow", vec![au(&a), au(&e)])
        }
        9..=12 => {
            let s = match r.below(5) {
                0 => r.below(bits + 70),
                1 => 64 * r.below(l + 2),
                2 => bits.saturating_sub(r.below(2)),
                3 => usize::MAX >> r.below(64),
                _ => r.below(bits + 1),
            };
            ("unary", vec![au(&a), an(s)])
        }
        13 => ("consts", vec![]),
        14 => ("from_prims", vec![Arg::N((u128::from(gen::alpha_limb(r)) << 64) | u128::from(gen::alpha_limb(r)))]),
        15 => {
            let f = match r.below(4) {
                0 => (bits as f64 + r.below(3) as f64 - 1.0).exp2(),
                1 => f64::from_bits(r.u64()),
                2 => (r.u64() >> r.below(64)) as f64 + 0.5,
                _ => big::big(&a).to_string().parse::<f64>().unwrap_or(0.0),
            };
            ("from_floats", vec![Arg::N(u128::from(f.to_bits()))])
        }
        16 => {
            let nb = (bits + 7) / 8;
            let len = r.below(nb + 3);
            let mut bytes = r.bytes(len);
            match r.below(3) {
                0 => bytes.iter_mut().for_each(|x| *x = 0xff),
                1 if !bytes.is_empty() => bytes[0] = 0,
                _ => {}
            }
            ("from_bytes", vec![Arg::B(bytes)])
        }
        17 => {
            let radix = *r.pick(&[2u64, 8, 10, 16, 36, 64]);
            let v = big::big(&a) + if r.chance(1, 4) { big::p2(bits) } else { BigUint::zero() };
            let s = if radix == 64 { v.to_str_radix(10) } else { v.to_str_radix(radix as u32) };
            let s = match (radix, r.below(3)) {
                (16, 0) => format!("0x{s}"),
                (2, 0) => format!("0b{s}"),
                (8, 0) => format!("0o{s}"),
                _ => s,
            };
            ("from_text", vec![Arg::S(s), Arg::N(radix.into())])
        }
        18 => {
            let base = *r.pick(&[2u64, 10, 256, 1 << 32, u64::MAX]);
            let n = r.below(2 * l + 4);
            let d: Vec<u64> = (0..n).map(|_| r.u64() % base).collect();
            ("from_digits", vec![au(&d), Arg::N(base.into())])
        }
        19 | 20 => {
            let len = r.below(l + 3);
            let mut s = gen::slice(r, len);
            if l > 0 && len >= l && r.bool() {
                s[l - 1] = gen::mask(bits).wrapping_add(r.below(3) as u64);
            }
            ("from_limbs", vec![au(&s)])
        }
        21 => ("generators", vec![Arg::N(u128::from(r.u64()))]),
        _ => ("cross", vec![au(&a), an(*r.pick(XW))]),
    };
    m.produced.clear();
    m.case_always(op, bits, args);
    let mut produced = std::mem::take(&mut m.produced);
    let fresh = pools.absorb(r, &mut produced);
    m.note_add("values_produced_fresh", fresh as u64);
}

fn main() {
    let mut m = Mon::new("C04", dispatch);
    if !m.replay_if_requested() {
        let shard = m.cfg.shard;
        let mut r = m.stream(&format!("c04.walk.{shard}"), 0);
        let mut pools = Pools::new(&mut m);
        let steps = m.iters(40_000);
        // weighted towards non-aligned widths
        let weights: Vec<usize> = WIDTHS.iter().map(|&b| if b % 64 == 0 { 1 } else { 3 }).collect();
        let total: usize = weights.iter().sum();
        let mut i = 0;
        loop {
            if i >= steps {
                // light lanes: another stretch of the walk while the time budget lasts
                if !m.another_light_pass() {
                    break;
                }
                i = 0;
            }
            i += 1;
            if i % 64 == 0 && m.time_up() {
                break;
            }
            let mut k = r.below(total);
            let mut bits = WIDTHS[0];
            for (j, w) in weights.iter().enumerate() {
                if k < *w {
                    bits = WIDTHS[j];
                    break;
                }
                k -= w;
            }
            if !m.width_enabled(bits) {
                continue;
            }
            step(&mut m, &mut pools, &mut r, bits);
            // after every batch: sampled pairs must compare like their values
            if i % 8 == 7 {
                let a = pools.pick(&mut r, bits);
                let b = match r.below(3) {
                    0 => a.clone(),
                    _ => pools.pick(&mut r, bits),
                };
                m.case_always("cmp", bits, vec![au(&a), au(&b)]);
                // near neighbours: differ in exactly one limb
                if !a.is_empty() {
                    let mut c = a.clone();
                    let j = r.below(c.len());
                    c[j] ^= 1 << r.below(64);
                    let c = gen::canon(c, bits);
                    m.case_always("cmp", bits, vec![au(&a), au(&c)]);
                }
            }
        }
        m.note("history_steps_per_shard", serde_json::json!(steps));
    }
    m.finish();
}
