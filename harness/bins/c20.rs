//! C20 workload (under construction).
fn main() {}
