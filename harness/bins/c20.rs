//! C20 — operator, wrapper and trait facades agree with the inherent methods.
//!
//! The oracle is differential: every facade entry point (operator impl shape,
//! `Bits` forward, num-traits / num-integer / subtle / zeroize trait method,
//! `Sum`/`Product`) is evaluated under `catch_unwind` next to the inherent
//! `Uint` method of the same documented meaning, and the two outcomes must be
//! equal (same value, flag, `None`, or both panic).  The inherent methods
//! themselves are judged against BigUint by C01–C13, not here.
//!
//! No facade trait is imported with `use`: every trait call is written as
//! `<Uint<B, L> as Trait>::method(..)` and every inherent call as a plain method
//! call, so a name shared by both can never silently resolve to the wrong one.

use num_integer as ni;
use num_traits as nt;
use ruint::{Bits, Uint};
use serde_json::json;
use std::{cell::RefCell, collections::BTreeSet, fmt::Debug};
use vmon::{an, au, big, gen, mon::short_file, rng::Rng, uint, Arg, Mon, Panic};

#[cfg(not(target_endian = "little"))]
compile_error!("harness: the C20 byte-order expectations are written for little-endian targets");

vmon::widths!(exec; 0, 1, 2, 7, 8, 16, 31, 32, 63, 64, 65, 100, 127, 128, 129, 192, 250, 255, 256, 257,
    384, 512, 4160);

thread_local! {
    /// Distinct facade entry points (`kind`s) compared so far (reported as a note).
    static KINDS: RefCell<BTreeSet<&'static str>> = const { RefCell::new(BTreeSet::new()) };
}

/// Canonical-form check on every `Uint` inside a compared value.
trait Canon {
    fn canon(&self, _m: &mut Mon) {}
}
impl<const B: usize, const L: usize> Canon for Uint<B, L> {
    fn canon(&self, m: &mut Mon) {
        m.canonical(self);
    }
}
impl<const B: usize, const L: usize> Canon for Bits<B, L> {
    fn canon(&self, m: &mut Mon) {
        m.canonical(self.as_uint());
    }
}
impl<T: Canon> Canon for Option<T> {
    fn canon(&self, m: &mut Mon) {
        if let Some(v) = self {
            v.canon(m);
        }
    }
}
impl<T: Canon, E> Canon for Result<T, E> {
    fn canon(&self, m: &mut Mon) {
        if let Ok(v) = self {
            v.canon(m);
        }
    }
}
impl<S: Canon, T: Canon> Canon for (S, T) {
    fn canon(&self, m: &mut Mon) {
        self.0.canon(m);
        self.1.canon(m);
    }
}
impl<T: Canon> Canon for ni::ExtendedGcd<T> {
    fn canon(&self, m: &mut Mon) {
        self.gcd.canon(m);
        self.x.canon(m);
        self.y.canon(m);
    }
}
macro_rules! plain_canon {
    ($($t:ty),*) => {$(impl Canon for $t {})*};
}
plain_canon!(bool, u8, u16, u32, u64, u128, usize, i8, i16, i32, i64, i128, isize, Vec<u8>, ());
impl<const N: usize> Canon for [u64; N] {}

fn pmsg(p: &Panic) -> String {
    format!("panic: {} at {}:{}", p.msg, short_file(&p.file), p.line)
}

/// Per-case comparison context.
struct Cx<'a> {
    m: &'a mut Mon,
    checks: u32,
    both_panic: u32,
    register: bool,
    /// First few inherent outcomes, kept only for sampled cases (evidence text).
    detail: Vec<String>,
}

impl Cx<'_> {
    /// An inherent result was produced: check its canonical form too.
    fn seen<T: Canon + Debug>(&mut self, r: &Result<T, Panic>) {
        if let Ok(v) = r {
            v.canon(self.m);
        }
        if self.m.sampling() && self.detail.len() < 4 {
            let mut t = match r {
                Ok(v) => format!("{v:?}"),
                Err(p) => format!("panic({})", p.msg),
            };
            if t.len() > 70 {
                let mut e = 70;
                while !t.is_char_boundary(e) {
                    e -= 1;
                }
                t.truncate(e);
                t.push('…');
            }
            self.detail.push(t);
        }
    }

    fn count(&mut self, kind: &'static str) {
        self.checks += 1;
        if self.register {
            KINDS.with(|k| {
                k.borrow_mut().insert(kind);
            });
        }
    }

    /// Facade outcome `f` must equal inherent outcome `e`: same value, or both
    /// panic.  Exactly one of them panicking is a disagreement.
    fn cmp<T: PartialEq + Debug + Canon>(&mut self, kind: &'static str, f: Result<T, Panic>, e: &Result<T, Panic>) {
        self.count(kind);
        match (f, e) {
            (Ok(f), Ok(e)) => {
                f.canon(self.m);
                self.m.eq(kind, &f, e);
            }
            (Err(_), Err(_)) => self.both_panic += 1,
            (Err(p), Ok(e)) => self.m.fail(kind, &format!("{e:?}"), &pmsg(&p)),
            (Ok(f), Err(p)) => {
                f.canon(self.m);
                self.m.fail(kind, &format!("a panic, as the inherent method ({})", pmsg(p)), &format!("{f:?}"));
            }
        }
    }

    /// Facade whose signature cannot express the inherent `None`: it must return
    /// the inherent `Some` value, and must panic where the inherent method
    /// returns `None` or panics.
    fn cmp_unwrapping<T: PartialEq + Debug + Canon>(
        &mut self,
        kind: &'static str,
        f: Result<T, Panic>,
        e: &Result<Option<T>, Panic>,
    ) {
        self.count(kind);
        match (f, e) {
            (Ok(f), Ok(Some(e))) => {
                f.canon(self.m);
                self.m.eq(kind, &f, e);
            }
            (Err(p), Ok(Some(e))) => self.m.fail(kind, &format!("{e:?}"), &pmsg(&p)),
            (Err(_), Ok(None) | Err(_)) => self.both_panic += 1,
            (Ok(f), Ok(None)) => {
                f.canon(self.m);
                self.m.fail(kind, "a panic (the inherent method reports None)", &format!("{f:?}"));
            }
            (Ok(f), Err(p)) => {
                f.canon(self.m);
                self.m.fail(kind, &format!("a panic, as the inherent method ({})", pmsg(p)), &format!("{f:?}"));
            }
        }
    }

    /// Default (not ruint-written) trait method checked against an inherent
    /// method that may be defective itself: only demand equality where the
    /// inherent method produced a value.
    fn cmp_where_defined<T: PartialEq + Debug + Canon>(
        &mut self,
        kind: &'static str,
        f: Result<T, Panic>,
        e: &Result<Option<T>, Panic>,
    ) {
        if let Ok(Some(e)) = e {
            self.count(kind);
            match f {
                Ok(f) => {
                    f.canon(self.m);
                    self.m.eq(kind, &f, e);
                }
                Err(p) => self.m.fail(kind, &format!("{e:?}"), &pmsg(&p)),
            }
        }
    }
}

/// The type under test at the call site (generic parameters resolve there).
macro_rules! U {
    () => { Uint<B, L> };
}

/// Evaluate the inherent side under `catch_unwind`.
macro_rules! inh {
    ($c:ident, $e:expr) => {{
        let r = $c.m.call(|| $e);
        $c.seen(&r);
        r
    }};
}

/// Evaluate a facade under `catch_unwind` and compare with the inherent outcome.
macro_rules! chk {
    ($c:ident, $kind:expr, $f:expr, $e:expr) => {{
        let r = $c.m.call(|| $f);
        $c.cmp($kind, r, $e);
    }};
}

/// The six operator-impl shapes of one binary operator.
macro_rules! six {
    ($c:ident, $x:ident, $y:ident, $name:literal, $op:tt, $opa:tt, $e:expr) => {{
        let e = $e;
        chk!($c, concat!($name, ".vv"), $x $op $y, &e);
        chk!($c, concat!($name, ".vr"), $x $op &$y, &e);
        chk!($c, concat!($name, ".rv"), &$x $op $y, &e);
        chk!($c, concat!($name, ".rr"), &$x $op &$y, &e);
        if $x == $y {
            // both operands are the very same object
            chk!($c, concat!($name, ".rr.alias"), &$x $op &$x, &e);
        }
        chk!($c, concat!($name, "Assign.v"), { let mut z = $x; z $opa $y; z }, &e);
        chk!($c, concat!($name, "Assign.r"), { let mut z = $x; z $opa &$y; z }, &e);
    }};
}

/// `<< >> <<= >>=` by value and by reference for every integer amount type the
/// (non-negative) amount fits in.
macro_rules! shifts {
    ($c:ident, $x:ident, $amt:ident, $el:ident, $er:ident; $($t:ident)*) => {$(
        if let Ok(s) = <$t>::try_from($amt) {
            chk!($c, concat!("Shl<", stringify!($t), ">"), $x << s, &$el);
            chk!($c, concat!("Shl<&", stringify!($t), ">"), $x << &s, &$el);
            chk!($c, concat!("ShlAssign<", stringify!($t), ">"), { let mut z = $x; z <<= s; z }, &$el);
            chk!($c, concat!("ShlAssign<&", stringify!($t), ">"), { let mut z = $x; z <<= &s; z }, &$el);
            chk!($c, concat!("Shr<", stringify!($t), ">"), $x >> s, &$er);
            chk!($c, concat!("Shr<&", stringify!($t), ">"), $x >> &s, &$er);
            chk!($c, concat!("ShrAssign<", stringify!($t), ">"), { let mut z = $x; z >>= s; z }, &$er);
            chk!($c, concat!("ShrAssign<&", stringify!($t), ">"), { let mut z = $x; z >>= &s; z }, &$er);
        }
    )*};
}

fn limbwise<const B: usize, const L: usize>(x: &[u64], y: &[u64], f: fn(u64, u64) -> u64) -> Result<Uint<B, L>, Panic> {
    let mut l = [0u64; L];
    for i in 0..L {
        l[i] = f(x[i], y[i]);
    }
    Ok(uint(&l))
}

fn all_zero(a: &[Arg]) -> bool {
    a.iter().all(|x| match x {
        Arg::U(v) => gen::is_zero(v),
        _ => true,
    })
}

fn exec<const B: usize, const L: usize>(m: &mut Mon, op: &str, a: &[Arg]) {
    let register = m.evaluations < 8192 || m.evaluations % 16 == 0;
    let mut c = Cx { m, checks: 0, both_panic: 0, register, detail: vec![] };
    c.m.nontrivial(!all_zero(a));
    match op {
        "binop" => binop::<B, L>(&mut c, a),
        "shift" => shift::<B, L>(&mut c, a),
        "shift_uint" => shift_uint::<B, L>(&mut c, a),
        "bits_wrapper" => bits_wrapper::<B, L>(&mut c, a),
        "num_traits" => num_traits::<B, L>(&mut c, a),
        "num_integer" => num_integer::<B, L>(&mut c, a),
        "subtle" => subtle_op::<B, L>(&mut c, a),
        "sum_product" => sum_product::<B, L>(&mut c, a, false),
        "sum_product_rep" => sum_product::<B, L>(&mut c, a, true),
        "zeroize" => zeroize_op::<B, L>(&mut c, a),
        _ => panic!("harness: unknown op {op}"),
    }
    let (n, p) = (c.checks, c.both_panic);
    let detail = std::mem::take(&mut c.detail);
    c.m.obs(|| {
        format!(
            "{n} facade outcomes compared with the inherent outcome ({p} of them: both panic); first inherent outcomes: {}",
            detail.join(" | ")
        )
    });
}

// ---------------------------------------------------------------- binop

fn binop<const B: usize, const L: usize>(c: &mut Cx, a: &[Arg]) {
    let (xl, yl) = (a[0].u(), a[1].u());
    let (x, y): (U!(), U!()) = (uint(xl), uint(yl));
    six!(c, x, y, "Add", +, +=, inh!(c, x.wrapping_add(y)));
    six!(c, x, y, "Sub", -, -=, inh!(c, x.wrapping_sub(y)));
    six!(c, x, y, "Mul", *, *=, inh!(c, x.wrapping_mul(y)));
    six!(c, x, y, "Div", /, /=, inh!(c, x.wrapping_div(y)));
    six!(c, x, y, "Rem", %, %=, inh!(c, x.wrapping_rem(y)));
    six!(c, x, y, "BitAnd", &, &=, limbwise::<B, L>(xl, yl, |p, q| p & q));
    six!(c, x, y, "BitOr", |, |=, limbwise::<B, L>(xl, yl, |p, q| p | q));
    six!(c, x, y, "BitXor", ^, ^=, limbwise::<B, L>(xl, yl, |p, q| p ^ q));
    let e = inh!(c, x.wrapping_neg());
    chk!(c, "Neg.v", -x, &e);
    chk!(c, "Neg.r", -&x, &e);
    let e = inh!(c, x.not());
    chk!(c, "Not.v", !x, &e);
    chk!(c, "Not.r", !&x, &e);
}

// ---------------------------------------------------------------- shift

fn shift<const B: usize, const L: usize>(c: &mut Cx, a: &[Arg]) {
    let x: U!() = uint(a[0].u());
    let amt = a[1].n();
    let Ok(s) = usize::try_from(amt) else {
        panic!("harness: shift amount {amt} does not fit usize");
    };
    let el = inh!(c, x.wrapping_shl(s));
    let er = inh!(c, x.wrapping_shr(s));
    shifts!(c, x, amt, el, er; usize u8 u16 u32 u64 isize i8 i16 i32 i64);
    // `Uint` amounts: only where the amount is a value of the type (and fits
    // usize, which every generated amount does), so that an inherent call of
    // the same meaning exists.
    if L > 0 && (L > 1 || amt as u64 <= gen::mask(B)) {
        let sa: U!() = uint(&gen::small(amt as u64, B));
        chk!(c, "Shl<Uint>", x << sa, &el);
        chk!(c, "Shl<&Uint>", x << &sa, &el);
        chk!(c, "ShlAssign<Uint>", { let mut z = x; z <<= sa; z }, &el);
        chk!(c, "ShlAssign<&Uint>", { let mut z = x; z <<= &sa; z }, &el);
        chk!(c, "Shr<Uint>", x >> sa, &er);
        chk!(c, "Shr<&Uint>", x >> &sa, &er);
        chk!(c, "ShrAssign<Uint>", { let mut z = x; z >>= sa; z }, &er);
        chk!(c, "ShrAssign<&Uint>", { let mut z = x; z >>= &sa; z }, &er);
    }
}

/// `Uint`-typed shift amounts of any magnitude. The inherent call of the same
/// meaning is `wrapping_shl/shr(amount)`; an amount that does not fit `usize`
/// shifts out every bit exactly like `usize::MAX` does.
fn shift_uint<const B: usize, const L: usize>(c: &mut Cx, a: &[Arg]) {
    let x: U!() = uint(a[0].u());
    let sa: U!() = uint(a[1].u());
    let s = if a[1].u().iter().skip(1).any(|&l| l != 0) {
        usize::MAX
    } else {
        a[1].u().first().copied().unwrap_or(0) as usize
    };
    let el = inh!(c, x.wrapping_shl(s));
    let er = inh!(c, x.wrapping_shr(s));
    chk!(c, "Shl<Uint>", x << sa, &el);
    chk!(c, "Shl<&Uint>", x << &sa, &el);
    chk!(c, "ShlAssign<Uint>", { let mut z = x; z <<= sa; z }, &el);
    chk!(c, "ShlAssign<&Uint>", { let mut z = x; z <<= &sa; z }, &el);
    chk!(c, "Shr<Uint>", x >> sa, &er);
    chk!(c, "Shr<&Uint>", x >> &sa, &er);
    chk!(c, "ShrAssign<Uint>", { let mut z = x; z >>= sa; z }, &er);
    chk!(c, "ShrAssign<&Uint>", { let mut z = x; z >>= &sa; z }, &er);
}

// ---------------------------------------------------------------- Bits

/// The const-generic byte-array methods need `BYTES` as a literal.
macro_rules! byte_arrays {
    ($c:ident, $x:ident, $bx:ident, $bytes:ident; $($n:literal)*) => {
        match (B + 7) / 8 {
            $($n => {
                let e = inh!($c, $x.to_le_bytes::<$n>().to_vec());
                chk!($c, "Bits::to_le_bytes", $bx.to_le_bytes::<$n>().to_vec(), &e);
                let e = inh!($c, $x.to_be_bytes::<$n>().to_vec());
                chk!($c, "Bits::to_be_bytes", $bx.to_be_bytes::<$n>().to_vec(), &e);
                let mut arr = [0u8; $n];
                let k = $bytes.len().min($n);
                arr[..k].copy_from_slice(&$bytes[..k]);
                let e = inh!($c, <U!()>::from_le_bytes::<$n>(arr));
                chk!($c, "Bits::from_le_bytes", Bits::<B, L>::from_le_bytes::<$n>(arr).into_inner(), &e);
                let e = inh!($c, <U!()>::from_be_bytes::<$n>(arr));
                chk!($c, "Bits::from_be_bytes", Bits::<B, L>::from_be_bytes::<$n>(arr).into_inner(), &e);
            })*
            n => panic!("harness: byte width {n} not instantiated"),
        }
    };
}

fn bits_wrapper<const B: usize, const L: usize>(c: &mut Cx, a: &[Arg]) {
    let (x, y): (U!(), U!()) = (uint(a[0].u()), uint(a[1].u()));
    let s = a[2].us();
    let bytes = a[3].b();
    let text = a[4].s();
    let radix = a[5].n() as u64;
    let (bx, by): (Bits<B, L>, Bits<B, L>) = (Bits::from(x), Bits::from(y));

    // Wrapping and unwrapping.
    chk!(c, "Bits::into_inner", bx.into_inner(), &Ok(x));
    chk!(c, "Bits::as_uint", *bx.as_uint(), &Ok(x));
    chk!(c, "Bits::as_uint_mut", { let mut t = bx; *t.as_uint_mut() = y; t.into_inner() }, &Ok(y));
    chk!(c, "From<Bits> for Uint", <U!() as From<Bits<B, L>>>::from(bx), &Ok(x));
    chk!(c, "From<Uint> for Bits", *<Bits<B, L> as From<U!()>>::from(x).as_uint(), &Ok(x));
    chk!(c, "Bits::ZERO", Bits::<B, L>::ZERO.into_inner(), &Ok(<U!()>::ZERO));
    chk!(c, "Bits::default", Bits::<B, L>::default().into_inner(), &Ok(<U!()>::default()));
    chk!(c, "Bits::BITS", Bits::<B, L>::BITS, &Ok(<U!()>::BITS));
    chk!(c, "Bits::LIMBS", Bits::<B, L>::LIMBS, &Ok(<U!()>::LIMBS));
    chk!(c, "Bits::BYTES", Bits::<B, L>::BYTES, &Ok(<U!()>::BYTES));
    chk!(c, "Bits::eq", bx == by, &Ok(x == y));
    chk!(c, "Bits::ne", bx != by, &Ok(x != y));

    // forward! methods.
    let e = inh!(c, x.reverse_bits());
    chk!(c, "Bits::reverse_bits", bx.reverse_bits().into_inner(), &e);
    let e = inh!(c, x.as_le_bytes().into_owned());
    chk!(c, "Bits::as_le_bytes", bx.as_le_bytes().into_owned(), &e);
    let e = inh!(c, x.to_be_bytes_vec());
    chk!(c, "Bits::to_be_bytes_vec", bx.to_be_bytes_vec(), &e);
    byte_arrays!(c, x, bx, bytes; 0 1 2 4 8 9 13 16 17 24 32 33 48 64 520);
    let e = inh!(c, x.leading_zeros());
    chk!(c, "Bits::leading_zeros", bx.leading_zeros(), &e);
    let e = inh!(c, x.leading_ones());
    chk!(c, "Bits::leading_ones", bx.leading_ones(), &e);
    let e = inh!(c, x.trailing_zeros());
    chk!(c, "Bits::trailing_zeros", bx.trailing_zeros(), &e);
    let e = inh!(c, x.trailing_ones());
    chk!(c, "Bits::trailing_ones", bx.trailing_ones(), &e);
    let e = inh!(c, { let mut t = x; unsafe { *t.as_limbs_mut() } });
    chk!(c, "Bits::as_limbs_mut.read", { let mut t = bx; unsafe { *t.as_limbs_mut() } }, &e);
    let e = inh!(c, { let mut t = x; unsafe { *t.as_limbs_mut() = *y.as_limbs() }; t });
    chk!(c, "Bits::as_limbs_mut.write", { let mut t = bx; unsafe { *t.as_limbs_mut() = *y.as_limbs() }; t.into_inner() }, &e);
    let e = inh!(c, x.checked_shl(s));
    chk!(c, "Bits::checked_shl", bx.checked_shl(s).map(Bits::into_inner), &e);
    let e = inh!(c, x.checked_shr(s));
    chk!(c, "Bits::checked_shr", bx.checked_shr(s).map(Bits::into_inner), &e);
    let e = inh!(c, x.overflowing_shl(s));
    chk!(c, "Bits::overflowing_shl", { let (v, f) = bx.overflowing_shl(s); (v.into_inner(), f) }, &e);
    let e = inh!(c, x.overflowing_shr(s));
    chk!(c, "Bits::overflowing_shr", { let (v, f) = bx.overflowing_shr(s); (v.into_inner(), f) }, &e);
    let el = inh!(c, x.wrapping_shl(s));
    chk!(c, "Bits::wrapping_shl", bx.wrapping_shl(s).into_inner(), &el);
    let er = inh!(c, x.wrapping_shr(s));
    chk!(c, "Bits::wrapping_shr", bx.wrapping_shr(s).into_inner(), &er);
    let e = inh!(c, x.rotate_left(s));
    chk!(c, "Bits::rotate_left", bx.rotate_left(s).into_inner(), &e);
    let e = inh!(c, x.rotate_right(s));
    chk!(c, "Bits::rotate_right", bx.rotate_right(s).into_inner(), &e);
    let e = inh!(c, <U!()>::try_from_be_slice(bytes));
    chk!(c, "Bits::try_from_be_slice", Bits::<B, L>::try_from_be_slice(bytes).map(Bits::into_inner), &e);
    let e = inh!(c, <U!()>::try_from_le_slice(bytes));
    chk!(c, "Bits::try_from_le_slice", Bits::<B, L>::try_from_le_slice(bytes).map(Bits::into_inner), &e);
    let e = inh!(c, <U!()>::from_str_radix(text, radix));
    chk!(c, "Bits::from_str_radix", Bits::<B, L>::from_str_radix(text, radix).map(Bits::into_inner), &e);
    let e = inh!(c, text.parse::<U!()>());
    chk!(c, "Bits::from_str", text.parse::<Bits<B, L>>().map(Bits::into_inner), &e);
    let e = inh!(c, <U!()>::from_limbs(*y.as_limbs()));
    chk!(c, "Bits::from_limbs", Bits::<B, L>::from_limbs(*y.as_limbs()).into_inner(), &e);
    let e = inh!(c, <U!()>::from_limbs([u64::MAX; L]));
    chk!(c, "Bits::from_limbs", Bits::<B, L>::from_limbs([u64::MAX; L]).into_inner(), &e);
    let e = inh!(c, *x.as_limbs());
    chk!(c, "Bits::as_limbs", *bx.as_limbs(), &e);

    // Operators.
    let e = inh!(c, x.bit(s));
    chk!(c, "Bits::index", bx[s], &e);
    let e = inh!(c, x.not());
    chk!(c, "Bits::Not.v", (!bx).into_inner(), &e);
    chk!(c, "Bits::Not.r", (!&bx).into_inner(), &e);
    macro_rules! bits_six {
        ($name:literal, $op:tt, $opa:tt) => {{
            let e = inh!(c, x $op y);
            chk!(c, concat!("Bits::", $name, ".vv"), (bx $op by).into_inner(), &e);
            chk!(c, concat!("Bits::", $name, ".vr"), (bx $op &by).into_inner(), &e);
            chk!(c, concat!("Bits::", $name, ".rv"), (&bx $op by).into_inner(), &e);
            chk!(c, concat!("Bits::", $name, ".rr"), (&bx $op &by).into_inner(), &e);
            chk!(c, concat!("Bits::", $name, "Assign.v"), { let mut z = bx; z $opa by; z.into_inner() }, &e);
            chk!(c, concat!("Bits::", $name, "Assign.r"), { let mut z = bx; z $opa &by; z.into_inner() }, &e);
        }};
    }
    bits_six!("BitOr", |, |=);
    bits_six!("BitAnd", &, &=);
    bits_six!("BitXor", ^, ^=);
    macro_rules! bits_shift {
        ($name:literal, $op:tt, $opa:tt, $e:ident) => {{
            chk!(c, concat!("Bits::", $name, "<usize>.v"), (bx $op s).into_inner(), &$e);
            chk!(c, concat!("Bits::", $name, "<usize>.r"), (&bx $op s).into_inner(), &$e);
            chk!(c, concat!("Bits::", $name, "<&usize>.v"), (bx $op &s).into_inner(), &$e);
            chk!(c, concat!("Bits::", $name, "<&usize>.r"), (&bx $op &s).into_inner(), &$e);
            chk!(c, concat!("Bits::", $name, "Assign<usize>"), { let mut z = bx; z $opa s; z.into_inner() }, &$e);
            chk!(c, concat!("Bits::", $name, "Assign<&usize>"), { let mut z = bx; z $opa &s; z.into_inner() }, &$e);
        }};
    }
    bits_shift!("Shl", <<, <<=, el);
    bits_shift!("Shr", >>, >>=, er);
}

// ---------------------------------------------------------------- num-traits

macro_rules! to_prim {
    ($c:ident, $x:ident; $($f:ident $t:ty),*) => {$(
        let e = inh!($c, <$t>::try_from($x).ok());
        chk!($c, concat!("ToPrimitive::", stringify!($f)), <U!() as nt::ToPrimitive>::$f(&$x), &e);
    )*};
}

macro_rules! from_prim {
    ($c:ident, $src:expr; $($f:ident $t:ty),*) => {$(
        let v = $src as $t;
        let e = inh!($c, <U!() as TryFrom<$t>>::try_from(v).ok());
        chk!($c, concat!("FromPrimitive::", stringify!($f)), <U!() as nt::FromPrimitive>::$f(v), &e);
        chk!($c, concat!("NumCast::from<", stringify!($t), ">"), <U!() as nt::NumCast>::from(v), &e);
    )*};
}

fn limbs_from_le_bytes<const L: usize>(bytes: &[u8]) -> [u64; L] {
    let mut l = [0u64; L];
    assert!(bytes.len() <= 8 * L, "harness: {} bytes do not fit {} limbs", bytes.len(), L);
    for (i, b) in bytes.iter().enumerate() {
        l[i / 8] |= u64::from(*b) << (8 * (i % 8));
    }
    l
}

fn num_traits<const B: usize, const L: usize>(c: &mut Cx, a: &[Arg]) {
    let (x, y, z, ex): (U!(), U!(), U!(), U!()) = (uint(a[0].u()), uint(a[1].u()), uint(a[2].u()), uint(a[3].u()));
    let s32 = u32::try_from(a[4].n()).expect("harness: shift amount does not fit u32");
    let s = s32 as usize;
    let pu = a[5].n();
    let pi = a[6].i();
    let bytes = a[7].b();
    let text = a[8].s();
    let radix = u32::try_from(a[9].n()).expect("harness: radix does not fit u32");

    // Identities and bounds.
    chk!(c, "Zero::zero", <U!() as nt::Zero>::zero(), &Ok(<U!()>::ZERO));
    let e = inh!(c, x.is_zero());
    chk!(c, "Zero::is_zero", <U!() as nt::Zero>::is_zero(&x), &e);
    chk!(c, "Zero::set_zero", { let mut t = x; <U!() as nt::Zero>::set_zero(&mut t); t }, &Ok(<U!()>::ZERO));
    chk!(c, "One::one", <U!() as nt::One>::one(), &Ok(<U!()>::ONE));
    chk!(c, "One::is_one", <U!() as nt::One>::is_one(&x), &Ok(x == <U!()>::ONE));
    chk!(c, "One::set_one", { let mut t = x; <U!() as nt::One>::set_one(&mut t); t }, &Ok(<U!()>::ONE));
    chk!(c, "Bounded::min_value", <U!() as nt::Bounded>::min_value(), &Ok(<U!()>::MIN));
    chk!(c, "Bounded::max_value", <U!() as nt::Bounded>::max_value(), &Ok(<U!()>::MAX));

    // Bytes.
    let e = inh!(c, <U!()>::try_from_le_slice(bytes));
    let r = c.m.call(|| <U!() as nt::FromBytes>::from_le_bytes(bytes));
    c.cmp_unwrapping("FromBytes::from_le_bytes", r, &e);
    let r = c.m.call(|| <U!() as nt::FromBytes>::from_ne_bytes(bytes));
    c.cmp_unwrapping("FromBytes::from_ne_bytes", r, &e);
    let e = inh!(c, <U!()>::try_from_be_slice(bytes));
    let r = c.m.call(|| <U!() as nt::FromBytes>::from_be_bytes(bytes));
    c.cmp_unwrapping("FromBytes::from_be_bytes", r, &e);
    let e = inh!(c, x.to_le_bytes_vec());
    chk!(c, "ToBytes::to_le_bytes", <U!() as nt::ToBytes>::to_le_bytes(&x), &e);
    chk!(c, "ToBytes::to_ne_bytes", <U!() as nt::ToBytes>::to_ne_bytes(&x), &e);
    let e = inh!(c, x.to_be_bytes_vec());
    chk!(c, "ToBytes::to_be_bytes", <U!() as nt::ToBytes>::to_be_bytes(&x), &e);

    // Checked family.
    let e = inh!(c, x.checked_add(y));
    chk!(c, "CheckedAdd::checked_add", <U!() as nt::CheckedAdd>::checked_add(&x, &y), &e);
    let e = inh!(c, x.checked_sub(y));
    chk!(c, "CheckedSub::checked_sub", <U!() as nt::CheckedSub>::checked_sub(&x, &y), &e);
    let e = inh!(c, x.checked_mul(y));
    chk!(c, "CheckedMul::checked_mul", <U!() as nt::CheckedMul>::checked_mul(&x, &y), &e);
    let ed = inh!(c, x.checked_div(y));
    chk!(c, "CheckedDiv::checked_div", <U!() as nt::CheckedDiv>::checked_div(&x, &y), &ed);
    let er = inh!(c, x.checked_rem(y));
    chk!(c, "CheckedRem::checked_rem", <U!() as nt::CheckedRem>::checked_rem(&x, &y), &er);
    let e = inh!(c, x.checked_neg());
    chk!(c, "CheckedNeg::checked_neg", <U!() as nt::CheckedNeg>::checked_neg(&x), &e);
    let e = inh!(c, x.checked_shl(s));
    chk!(c, "CheckedShl::checked_shl", <U!() as nt::CheckedShl>::checked_shl(&x, s32), &e);
    let e = inh!(c, x.checked_shr(s));
    chk!(c, "CheckedShr::checked_shr", <U!() as nt::CheckedShr>::checked_shr(&x, s32), &e);

    // Euclidean division of unsigned values is plain division.
    chk!(c, "CheckedEuclid::checked_div_euclid", <U!() as nt::CheckedEuclid>::checked_div_euclid(&x, &y), &ed);
    chk!(c, "CheckedEuclid::checked_rem_euclid", <U!() as nt::CheckedEuclid>::checked_rem_euclid(&x, &y), &er);
    let e = inh!(c, x.checked_div(y).zip(x.checked_rem(y)));
    chk!(c, "CheckedEuclid::checked_div_rem_euclid", <U!() as nt::CheckedEuclid>::checked_div_rem_euclid(&x, &y), &e);
    let e = inh!(c, x.wrapping_div(y));
    chk!(c, "Euclid::div_euclid", <U!() as nt::Euclid>::div_euclid(&x, &y), &e);
    let e = inh!(c, x.wrapping_rem(y));
    chk!(c, "Euclid::rem_euclid", <U!() as nt::Euclid>::rem_euclid(&x, &y), &e);
    let e = inh!(c, x.div_rem(y));
    chk!(c, "Euclid::div_rem_euclid", <U!() as nt::Euclid>::div_rem_euclid(&x, &y), &e);

    // Inverse, fused multiply-add.
    let e = inh!(c, x.inv_ring());
    chk!(c, "Inv::inv", <U!() as nt::Inv>::inv(x), &e);
    let e = inh!(c, x.wrapping_mul(y).wrapping_add(z));
    chk!(c, "MulAdd::mul_add", <U!() as nt::MulAdd>::mul_add(x, y, z), &e);
    chk!(c, "MulAddAssign::mul_add_assign", { let mut t = x; <U!() as nt::MulAddAssign>::mul_add_assign(&mut t, y, z); t }, &e);

    // Saturating, wrapping, overflowing families.
    let e = inh!(c, x.saturating_add(y));
    chk!(c, "Saturating::saturating_add", <U!() as nt::Saturating>::saturating_add(x, y), &e);
    chk!(c, "SaturatingAdd::saturating_add", <U!() as nt::SaturatingAdd>::saturating_add(&x, &y), &e);
    let e = inh!(c, x.saturating_sub(y));
    chk!(c, "Saturating::saturating_sub", <U!() as nt::Saturating>::saturating_sub(x, y), &e);
    chk!(c, "SaturatingSub::saturating_sub", <U!() as nt::SaturatingSub>::saturating_sub(&x, &y), &e);
    let e = inh!(c, x.saturating_mul(y));
    chk!(c, "SaturatingMul::saturating_mul", <U!() as nt::SaturatingMul>::saturating_mul(&x, &y), &e);
    let e = inh!(c, x.wrapping_add(y));
    chk!(c, "WrappingAdd::wrapping_add", <U!() as nt::WrappingAdd>::wrapping_add(&x, &y), &e);
    let e = inh!(c, x.wrapping_sub(y));
    chk!(c, "WrappingSub::wrapping_sub", <U!() as nt::WrappingSub>::wrapping_sub(&x, &y), &e);
    let e = inh!(c, x.wrapping_mul(y));
    chk!(c, "WrappingMul::wrapping_mul", <U!() as nt::WrappingMul>::wrapping_mul(&x, &y), &e);
    let e = inh!(c, x.wrapping_neg());
    chk!(c, "WrappingNeg::wrapping_neg", <U!() as nt::WrappingNeg>::wrapping_neg(&x), &e);
    let esl = inh!(c, x.wrapping_shl(s));
    chk!(c, "WrappingShl::wrapping_shl", <U!() as nt::WrappingShl>::wrapping_shl(&x, s32), &esl);
    let esr = inh!(c, x.wrapping_shr(s));
    chk!(c, "WrappingShr::wrapping_shr", <U!() as nt::WrappingShr>::wrapping_shr(&x, s32), &esr);
    let e = inh!(c, x.overflowing_add(y));
    chk!(c, "OverflowingAdd::overflowing_add", <U!() as nt::ops::overflowing::OverflowingAdd>::overflowing_add(&x, &y), &e);
    let e = inh!(c, x.overflowing_sub(y));
    chk!(c, "OverflowingSub::overflowing_sub", <U!() as nt::ops::overflowing::OverflowingSub>::overflowing_sub(&x, &y), &e);
    let e = inh!(c, x.overflowing_mul(y));
    chk!(c, "OverflowingMul::overflowing_mul", <U!() as nt::ops::overflowing::OverflowingMul>::overflowing_mul(&x, &y), &e);

    // Parsing and powers.
    let e = inh!(c, <U!()>::from_str_radix(text, u64::from(radix)));
    chk!(c, "Num::from_str_radix", <U!() as nt::Num>::from_str_radix(text, radix), &e);
    let e = inh!(c, x.pow(ex));
    chk!(c, "Pow<Uint>::pow", <U!() as nt::Pow<U!()>>::pow(x, ex), &e);

    // Conversions to and from primitives.
    to_prim!(c, x; to_u8 u8, to_u16 u16, to_u32 u32, to_u64 u64, to_u128 u128, to_usize usize,
        to_i8 i8, to_i16 i16, to_i32 i32, to_i64 i64, to_i128 i128, to_isize isize);
    from_prim!(c, pu; from_u8 u8, from_u16 u16, from_u32 u32, from_u64 u64, from_u128 u128, from_usize usize);
    from_prim!(c, pi; from_i8 i8, from_i16 i16, from_i32 i32, from_i64 i64, from_i128 i128, from_isize isize);

    // PrimInt.
    let e = inh!(c, x.count_ones() as u32);
    chk!(c, "PrimInt::count_ones", <U!() as nt::PrimInt>::count_ones(x), &e);
    let e = inh!(c, x.count_zeros() as u32);
    chk!(c, "PrimInt::count_zeros", <U!() as nt::PrimInt>::count_zeros(x), &e);
    let e = inh!(c, x.leading_zeros() as u32);
    chk!(c, "PrimInt::leading_zeros", <U!() as nt::PrimInt>::leading_zeros(x), &e);
    let e = inh!(c, x.leading_ones() as u32);
    chk!(c, "PrimInt::leading_ones", <U!() as nt::PrimInt>::leading_ones(x), &e);
    let e = inh!(c, x.trailing_zeros() as u32);
    chk!(c, "PrimInt::trailing_zeros", <U!() as nt::PrimInt>::trailing_zeros(x), &e);
    let e = inh!(c, x.trailing_ones() as u32);
    chk!(c, "PrimInt::trailing_ones", <U!() as nt::PrimInt>::trailing_ones(x), &e);
    let e = inh!(c, x.rotate_left(s));
    chk!(c, "PrimInt::rotate_left", <U!() as nt::PrimInt>::rotate_left(x, s32), &e);
    let e = inh!(c, x.rotate_right(s));
    chk!(c, "PrimInt::rotate_right", <U!() as nt::PrimInt>::rotate_right(x, s32), &e);
    chk!(c, "PrimInt::signed_shl", <U!() as nt::PrimInt>::signed_shl(x, s32), &esl);
    chk!(c, "PrimInt::unsigned_shl", <U!() as nt::PrimInt>::unsigned_shl(x, s32), &esl);
    chk!(c, "PrimInt::unsigned_shr", <U!() as nt::PrimInt>::unsigned_shr(x, s32), &esr);
    let e = inh!(c, x.arithmetic_shr(s));
    chk!(c, "PrimInt::signed_shr", <U!() as nt::PrimInt>::signed_shr(x, s32), &e);
    let e = inh!(c, x.reverse_bits());
    chk!(c, "PrimInt::reverse_bits", <U!() as nt::PrimInt>::reverse_bits(x), &e);
    // Little-endian target: `to_le`/`from_le` are the identity at every width.
    chk!(c, "PrimInt::to_le", <U!() as nt::PrimInt>::to_le(x), &Ok(x));
    chk!(c, "PrimInt::from_le", <U!() as nt::PrimInt>::from_le(x), &Ok(x));
    if B % 8 == 0 {
        // Byte reversal is only meaningful for whole-byte widths.
        let e = inh!(c, {
            let mut v = x.to_le_bytes_vec();
            v.reverse();
            <U!()>::from_limbs(limbs_from_le_bytes::<L>(&v))
        });
        chk!(c, "PrimInt::swap_bytes", <U!() as nt::PrimInt>::swap_bytes(x), &e);
        chk!(c, "PrimInt::to_be", <U!() as nt::PrimInt>::to_be(x), &e);
        chk!(c, "PrimInt::from_be", <U!() as nt::PrimInt>::from_be(x), &e);
    }
    // `pow(u32)`: only where the exponent is a value of the type, so that an
    // inherent call of the same meaning exists.
    if L > 0 && (L > 1 || u64::from(s32) <= gen::mask(B)) {
        let e32: U!() = uint(&gen::small(u64::from(s32), B));
        let e = inh!(c, x.pow(e32));
        chk!(c, "PrimInt::pow", <U!() as nt::PrimInt>::pow(x, s32), &e);
    }
}

// ---------------------------------------------------------------- num-integer

fn num_integer<const B: usize, const L: usize>(c: &mut Cx, a: &[Arg]) {
    let (x, y): (U!(), U!()) = (uint(a[0].u()), uint(a[1].u()));
    let e = inh!(c, x.wrapping_div(y));
    chk!(c, "Integer::div_floor", <U!() as ni::Integer>::div_floor(&x, &y), &e);
    let e = inh!(c, x.wrapping_rem(y));
    chk!(c, "Integer::mod_floor", <U!() as ni::Integer>::mod_floor(&x, &y), &e);
    let e = inh!(c, x.div_ceil(y));
    chk!(c, "Integer::div_ceil", <U!() as ni::Integer>::div_ceil(&x, &y), &e);
    let eg = inh!(c, x.gcd(y));
    chk!(c, "Integer::gcd", <U!() as ni::Integer>::gcd(&x, &y), &eg);
    let el = inh!(c, x.lcm(y));
    let r = c.m.call(|| <U!() as ni::Integer>::lcm(&x, &y));
    c.cmp_unwrapping("Integer::lcm", r, &el);
    let e = match (&eg, &el) {
        (Ok(g), Ok(l)) => Ok((*l).map(|l| (*g, l))),
        (Err(p), _) | (_, Err(p)) => Err(p.clone()),
    };
    let r = c.m.call(|| <U!() as ni::Integer>::gcd_lcm(&x, &y));
    c.cmp_unwrapping("Integer::gcd_lcm", r, &e);
    let e = inh!(c, {
        let (gcd, x, y, _sign) = x.gcd_extended(y);
        ni::ExtendedGcd { gcd, x, y }
    });
    chk!(c, "Integer::extended_gcd", <U!() as ni::Integer>::extended_gcd(&x, &y), &e);
    // Documented meaning: "self is a multiple of other"; num-integer's own
    // integer impls define the zero case as `self == 0`.
    let e = inh!(c, if y.is_zero() { x.is_zero() } else { x.wrapping_rem(y).is_zero() });
    chk!(c, "Integer::is_multiple_of", <U!() as ni::Integer>::is_multiple_of(&x, &y), &e);
    #[allow(deprecated)]
    {
        chk!(c, "Integer::divides", <U!() as ni::Integer>::divides(&x, &y), &e);
    }
    let even = a[0].u().first().map_or(true, |l| l & 1 == 0);
    chk!(c, "Integer::is_even", <U!() as ni::Integer>::is_even(&x), &Ok(even));
    chk!(c, "Integer::is_odd", <U!() as ni::Integer>::is_odd(&x), &Ok(!even));
    let e = inh!(c, x.div_rem(y));
    chk!(c, "Integer::div_rem", <U!() as ni::Integer>::div_rem(&x, &y), &e);
    chk!(c, "Integer::div_mod_floor", <U!() as ni::Integer>::div_mod_floor(&x, &y), &e);
    let e = inh!(c, x.wrapping_sub(<U!()>::ONE));
    chk!(c, "Integer::dec", { let mut t = x; <U!() as ni::Integer>::dec(&mut t); t }, &e);
    let e = inh!(c, x.wrapping_add(<U!()>::ONE));
    chk!(c, "Integer::inc", { let mut t = x; <U!() as ni::Integer>::inc(&mut t); t }, &e);
    // Provided (default) methods: demanded only where the inherent method
    // yields a value.
    let e = inh!(c, x.checked_next_multiple_of(y));
    let r = c.m.call(|| <U!() as ni::Integer>::next_multiple_of(&x, &y));
    c.cmp_where_defined("Integer::next_multiple_of", r, &e);
    let e = inh!(c, x.checked_rem(y).map(|r| x.wrapping_sub(r)));
    let r = c.m.call(|| <U!() as ni::Integer>::prev_multiple_of(&x, &y));
    c.cmp_where_defined("Integer::prev_multiple_of", r, &e);
}

// ---------------------------------------------------------------- subtle

fn subtle_op<const B: usize, const L: usize>(c: &mut Cx, a: &[Arg]) {
    let (x, y): (U!(), U!()) = (uint(a[0].u()), uint(a[1].u()));
    let idx = a[2].us();
    let pick = match a[3].n() {
        0 => false,
        1 => true,
        n => panic!("harness: choice {n} is not 0 or 1"),
    };
    let ch = || subtle::Choice::from(u8::from(pick));
    chk!(c, "ct_eq", bool::from(<U!() as subtle::ConstantTimeEq>::ct_eq(&x, &y)), &Ok(x == y));
    chk!(c, "ct_ne", bool::from(<U!() as subtle::ConstantTimeEq>::ct_ne(&x, &y)), &Ok(x != y));
    chk!(c, "ct_gt", bool::from(<U!() as subtle::ConstantTimeGreater>::ct_gt(&x, &y)), &Ok(x > y));
    chk!(c, "ct_lt", bool::from(<U!() as subtle::ConstantTimeLess>::ct_lt(&x, &y)), &Ok(x < y));
    let sel = if pick { y } else { x };
    chk!(c, "conditional_select", <U!() as subtle::ConditionallySelectable>::conditional_select(&x, &y, ch()), &Ok(sel));
    chk!(c, "conditional_assign", { let mut t = x; <U!() as subtle::ConditionallySelectable>::conditional_assign(&mut t, &y, ch()); t }, &Ok(sel));
    chk!(
        c,
        "conditional_swap",
        { let (mut p, mut q) = (x, y); <U!() as subtle::ConditionallySelectable>::conditional_swap(&mut p, &mut q, ch()); (p, q) },
        &Ok(if pick { (y, x) } else { (x, y) })
    );
    let e = inh!(c, if pick { x.wrapping_neg() } else { x });
    chk!(c, "conditional_negate", { let mut t = x; <U!() as subtle::ConditionallyNegatable>::conditional_negate(&mut t, ch()); t }, &e);
    // `bit_ct` is documented to panic for index >= BITS, where `bit` is false.
    if idx < B {
        let e = inh!(c, x.bit(idx));
        chk!(c, "bit_ct", bool::from(x.bit_ct(idx)), &e);
    }
}

// ---------------------------------------------------------------- Sum / Product

fn sum_product<const B: usize, const L: usize>(c: &mut Cx, a: &[Arg], rep: bool) {
    // rep: (v, w, n) stands for the n terms v, w, v, w, ...
    let terms: Vec<&[u64]> = if rep { (0..a[2].us()).map(|i| a[i % 2].u()).collect() } else { a.iter().map(|x| x.u()).collect() };
    let xs: Vec<U!()> = terms.iter().map(|x| uint(x)).collect();
    c.m.nontrivial(terms.iter().filter(|x| !gen::is_zero(x)).count() >= 2);
    let e = inh!(c, xs.iter().fold(<U!()>::ZERO, |s, v| s.wrapping_add(*v)));
    chk!(c, "Sum<Uint>", xs.iter().copied().sum::<U!()>(), &e);
    chk!(c, "Sum<&Uint>", xs.iter().sum::<U!()>(), &e);
    macro_rules! each_sum {
        ($label:literal, $f:expr) => {
            chk!(c, concat!("Sum.", $label), $f, &e);
        };
    }
    vmon::iter_kinds!(xs, Uint<B, L>, sum; each_sum);
    let e = inh!(c, xs.iter().fold(<U!()>::ONE, |s, v| s.wrapping_mul(*v)));
    chk!(c, "Product<Uint>", xs.iter().copied().product::<U!()>(), &e);
    chk!(c, "Product<&Uint>", xs.iter().product::<U!()>(), &e);
    macro_rules! each_product {
        ($label:literal, $f:expr) => {
            chk!(c, concat!("Product.", $label), $f, &e);
        };
    }
    vmon::iter_kinds!(xs, Uint<B, L>, product; each_product);
}

// ---------------------------------------------------------------- Zeroize

fn zeroize_op<const B: usize, const L: usize>(c: &mut Cx, a: &[Arg]) {
    let x: U!() = uint(a[0].u());
    chk!(c, "Zeroize for Uint", { let mut t = x; <U!() as zeroize::Zeroize>::zeroize(&mut t); t }, &Ok(<U!()>::ZERO));
    chk!(
        c,
        "Zeroize for Bits",
        { let mut t = Bits::from(x); <Bits<B, L> as zeroize::Zeroize>::zeroize(&mut t); t.into_inner() },
        &Ok(<U!()>::ZERO)
    );
}

// ================================================================ workload

fn not_limbs(v: &[u64], bits: usize) -> Vec<u64> {
    gen::canon(v.iter().map(|x| !x).collect(), bits)
}

/// Shift / rotate / index amounts: every limb and width boundary, over-wide
/// amounts up to BITS + 130, and the extremes of each integer amount type.
fn amounts(bits: usize) -> Vec<u64> {
    let mut v: Vec<u64> = vec![0, 1, 2, 7, 8, 31, 32, 33, 63, 64, 65, 127, 128, 129, 191, 192, 255, 256];
    for d in [-65i64, -64, -63, -2, -1, 0, 1, 2, 63, 64, 65, 127, 128, 130] {
        let k = bits as i64 + d;
        if k >= 0 {
            v.push(k as u64);
        }
    }
    v.push(bits as u64 / 2);
    v.push(2 * bits as u64);
    for t in [i8::MAX as u64, u8::MAX as u64, i16::MAX as u64, u16::MAX as u64, i32::MAX as u64, u32::MAX as u64] {
        v.extend([t - 1, t, t + 1]);
    }
    v.extend([i64::MAX as u64 - 1, i64::MAX as u64, i64::MAX as u64 + 1, u64::MAX - 1, u64::MAX]);
    v.extend([1 << 32, (1 << 32) + 64, 1 << 40]);
    v.sort_unstable();
    v.dedup();
    v
}

fn rand_amount(r: &mut Rng, bits: usize) -> u64 {
    match r.below(16) {
        0..=8 => r.below(bits + 1) as u64,
        9..=11 => r.range(bits, bits + 130) as u64,
        12 => *r.pick(&amounts(bits)),
        13 => r.u64() >> r.below(64),
        14 => 64 * r.below(bits / 64 + 3) as u64,
        _ => r.below(256) as u64,
    }
}

/// Amount for the `u32`/`usize` shared operand of the trait and wrapper ops.
fn rand_amount32(r: &mut Rng, bits: usize) -> u64 {
    let s = rand_amount(r, bits);
    if s > u64::from(u32::MAX) {
        s >> 32
    } else {
        s
    }
}

/// Byte strings for the slice decoders: mostly exactly BYTES long, in and out
/// of range, sometimes shorter or longer.
fn rand_bytes(r: &mut Rng, bits: usize) -> Vec<u8> {
    let nb = (bits + 7) / 8;
    let len = match r.below(8) {
        0 => r.below(nb + 1),
        1 => nb + r.range(1, 2),
        _ => nb,
    };
    let mut v: Vec<u8> = match r.below(6) {
        0 => r.bytes(len),
        1 => vec![0xff; len],
        2 => vec![0; len],
        _ => {
            // the bytes of an in-range value, little- or big-endian
            let limbs = gen::hostile(r, bits);
            let mut b: Vec<u8> = limbs.iter().flat_map(|l| l.to_le_bytes()).collect();
            b.resize(len, 0);
            if r.bool() {
                b.reverse();
            }
            b
        }
    };
    if len > 0 && r.chance(1, 8) {
        let i = if r.bool() { 0 } else { len - 1 };
        v[i] = *r.pick(&[0u8, 1, 0x7f, 0x80, 0xff]);
    }
    v
}

/// Texts for the parsers: digits of in-range and slightly over-range values in
/// the chosen radix, plus the usual mutations.
fn rand_text(r: &mut Rng, bits: usize) -> (String, u64) {
    let radix: u64 = match r.below(16) {
        0..=2 => 10,
        3..=5 => 16,
        6 => 2,
        7 => 8,
        8 => 36,
        9..=11 => r.range(2, 36) as u64,
        12 => r.range(37, 64) as u64,
        13 => *r.pick(&[0u64, 1, 65, 100, 255, 256, u32::MAX as u64]),
        _ => *r.pick(&[3u64, 7, 32, 35, 64]),
    };
    let wide = if r.chance(1, 6) { bits + r.range(1, 9) } else { bits };
    let v = big::big(&gen::hostile(r, wide));
    let mut s: String = if (2..=36).contains(&radix) {
        v.to_str_radix(radix as u32)
    } else {
        const A64: &[u8] = b"ABCDEFGHIJKLMNOPQRSTUVWXYZabcdefghijklmnopqrstuvwxyz0123456789+/";
        (0..r.below(bits / 5 + 3)).map(|_| *r.pick(A64) as char).collect()
    };
    match r.below(16) {
        0 => s = s.to_uppercase(),
        1 => {
            let i = r.below(s.len() + 1);
            s.insert(i, '_');
        }
        2 => {
            let i = r.below(s.len() + 1);
            s.insert(i, *r.pick(&['!', ' ', 'g', 'z', 'Z', '-', '+', '.', 'é', '9', '/']));
        }
        3 => s = String::new(),
        4 => s = format!("{}{}", r.pick(&["0x", "0b", "0o", "0X", "+", "000", "0_"]), s),
        5 => {
            s.truncate(r.below(s.len() + 1));
        }
        _ => {}
    }
    (s, radix)
}

fn rand_prims(r: &mut Rng) -> (u128, i128) {
    let pu = match r.below(8) {
        0 => 0,
        1 => u128::MAX,
        2 => 1u128 << r.below(128),
        3 => (1u128 << r.below(128)) - 1,
        4 => r.u64() as u128 >> r.below(64),
        5 => r.below(300) as u128,
        _ => r.u128() >> r.below(128),
    };
    let pi = match r.below(10) {
        0 => 0,
        1 => i128::MAX,
        2 => i128::MIN,
        3 => -1,
        4 => 1i128 << r.below(127),
        5 => -(1i128 << r.below(127)),
        6 => (r.u64() >> r.below(64)) as i128,
        7 => -((r.u64() >> r.below(64)) as i128),
        8 => r.below(300) as i128 - 150,
        _ => (r.u128() >> r.below(128)) as i128,
    };
    (pu, pi)
}

/// Exponent for `Pow`: mostly short (cost is linear in its bit length).
fn rand_exp(r: &mut Rng, bits: usize) -> Vec<u64> {
    match r.below(8) {
        0 => gen::hostile(r, bits),
        1 => gen::zero(bits),
        2 => gen::small(1, bits),
        _ => {
            let len = r.below(bits.min(20) + 1);
            gen::with_bit_len(r, len, bits)
        }
    }
}

fn wrapper_case(m: &mut Mon, r: &mut Rng, bits: usize, a: &[u64], b: &[u64], s: u64) {
    let (text, radix) = rand_text(r, bits);
    let bytes = rand_bytes(r, bits);
    m.case("bits_wrapper", bits, vec![au(a), au(b), Arg::N(s.into()), Arg::B(bytes), Arg::S(text), Arg::N(radix.into())]);
}

fn traits_case(m: &mut Mon, r: &mut Rng, bits: usize, a: &[u64], b: &[u64], z: &[u64], s: u64) {
    let (text, radix) = rand_text(r, bits);
    let bytes = rand_bytes(r, bits);
    let (pu, pi) = rand_prims(r);
    let e = rand_exp(r, bits);
    m.case(
        "num_traits",
        bits,
        vec![
            au(a),
            au(b),
            au(z),
            au(&e),
            Arg::N(s.into()),
            Arg::N(pu),
            Arg::I(pi),
            Arg::B(bytes),
            Arg::S(text),
            Arg::N(radix.into()),
        ],
    );
}

fn pair_cases(m: &mut Mon, bits: usize, a: &[u64], b: &[u64], idx: usize, pick: usize) {
    m.case("binop", bits, vec![au(a), au(b)]);
    m.case("num_integer", bits, vec![au(a), au(b)]);
    m.case("subtle", bits, vec![au(a), au(b), an(idx), an(pick)]);
}

fn workload(m: &mut Mon, bits: usize) {
    let bd = gen::boundary(bits);
    let am = amounts(bits);
    let wide = bits > 256;

    // ---- directed: boundary values against structured partners.
    let mut r = m.stream("c20.directed", bits);
    for (i, a) in bd.iter().enumerate() {
        if !m.keep() {
            continue;
        }
        m.case("zeroize", bits, vec![au(a)]);
        let mut partners = vec![a.clone(), not_limbs(a, bits), gen::zero(bits), gen::max(bits)];
        if bits > 0 {
            partners.push(gen::small(1, bits));
            partners.push(gen::small(2, bits));
            partners.push(gen::small(3, bits));
            for _ in 0..3 {
                partners.push(r.pick(&bd).clone());
            }
        }
        for (j, b) in partners.iter().enumerate() {
            pair_cases(m, bits, a, b, (i * 7 + j * 13) % (bits + 1), (i + j) % 2);
            pair_cases(m, bits, b, a, (i * 11 + j * 5) % (bits + 1), (i + j + 1) % 2);
        }
        // a few amounts per value for the shift operators; the full grid follows
        for k in 0..6 {
            let s = am[(i * 6 + k) % am.len()];
            m.case("shift", bits, vec![au(a), Arg::N(s.into())]);
        }
        for k in 0..2 {
            let b = partners[(i + k) % partners.len()].clone();
            let z = r.pick(&bd).clone();
            let s = am[(i * 2 + k) % am.len()];
            let s32 = if s > u64::from(u32::MAX) { s >> 32 } else { s };
            wrapper_case(m, &mut r, bits, a, &b, s32);
            traits_case(m, &mut r, bits, a, &b, &z, s32);
        }
    }
    // ---- directed: the full amount grid on a handful of dense values.
    let mut dense = vec![gen::max(bits), gen::small(1, bits), gen::pow2(bits.saturating_sub(1), bits)];
    for _ in 0..3 {
        dense.push(gen::uniform(&mut r, bits));
    }
    for a in &dense {
        for &s in &am {
            if !m.keep() {
                continue;
            }
            m.case("shift", bits, vec![au(a), Arg::N(s.into())]);
            if s <= u64::from(u32::MAX) {
                let b = r.pick(&bd).clone();
                wrapper_case(m, &mut r, bits, a, &b, s);
                traits_case(m, &mut r, bits, a, &b, &b, s);
            }
        }
    }
    // ---- directed: values that differ in one limb and agree, or disagree the
    // other way, in another (limb-order mistakes in the comparisons, selects and
    // limb-wise operators).
    let n = gen::nlimbs(bits);
    for lo in 0..n {
        for hi in lo + 1..n {
            if !m.keep() {
                continue;
            }
            let top = if hi == n - 1 { gen::mask(bits) } else { u64::MAX };
            let mut a = gen::zero(bits);
            let mut b = gen::zero(bits);
            a[hi] = 1;
            b[lo] = u64::MAX;
            pair_cases(m, bits, &a, &b, 64 * lo, 1);
            pair_cases(m, bits, &b, &a, 64 * hi, 0);
            b[hi] = 1;
            a[lo] = 2;
            pair_cases(m, bits, &a, &b, 64 * lo + 1, 0);
            pair_cases(m, bits, &b, &a, 64 * hi, 1);
            a[hi] = top;
            b[hi] = top & !1;
            pair_cases(m, bits, &a, &b, 64 * hi + 1, 1);
            pair_cases(m, bits, &b, &a, 64 * lo + 63, 0);
        }
    }
    // ---- directed: empty and singleton iterators.
    m.case("sum_product", bits, vec![]);
    m.case("sum_product", bits, vec![au(&gen::max(bits))]);
    if !m.is_light() && bits > 0 && bits <= 1088 {
        let mut r = m.stream("c20.long", bits);
        for n in [255usize, 256, 257, 513, 1025] {
            m.case("sum_product_rep", bits, vec![au(&gen::max(bits)), au(&gen::max(bits)), an(n)]);
            let mut v = gen::hostile(&mut r, bits);
            v[0] |= 1;
            m.case("sum_product_rep", bits, vec![au(&v), au(&gen::max(bits)), an(n)]);
        }
    }
    m.case("sum_product", bits, vec![au(&gen::max(bits)), au(&gen::max(bits)), au(&gen::small(2, bits))]);

    // ---- seeded random cases.
    let mut r = m.stream("c20.random", bits);
    let base = if bits == 0 {
        1500
    } else if bits <= 64 {
        24000
    } else if !wide {
        18000
    } else if bits <= 2048 {
        9000
    } else {
        // more than 64 limbs (a per-limb bit mask no longer fits one word): the facades are compared at this
        // width class too, with a smaller random budget because gcd/pow/root cases cost milliseconds here
        1200
    };
    let iters = m.iters(base);
    for i in 0..iters {
        if i % 128 == 0 && m.time_up() {
            break;
        }
        let a = gen::hostile(&mut r, bits);
        let b = match r.below(10) {
            0 => not_limbs(&a, bits),
            1 => a.clone(),
            2 => gen::zero(bits),
            3 => {
                // a divisor of comparable size: same top limb region
                let len = gen::bit_len(&a).saturating_sub(r.below(3));
                gen::with_bit_len(&mut r, len, bits)
            }
            4 => {
                // short divisor
                let len = r.range(0, bits.min(64));
                gen::with_bit_len(&mut r, len, bits)
            }
            _ => gen::hostile(&mut r, bits),
        };
        let idx = match r.below(4) {
            0 => r.range(bits, bits + 70),
            _ => r.below(bits + 1),
        };
        pair_cases(m, bits, &a, &b, idx, r.below(2));
        let s = rand_amount(&mut r, bits);
        m.case("shift", bits, vec![au(&a), Arg::N(s.into())]);
        let s = rand_amount(&mut r, bits);
        m.case("shift", bits, vec![au(&b), Arg::N(s.into())]);
        // Uint-typed amounts of any magnitude: small, with non-zero high limbs, hostile
        let amt = match r.below(4) {
            0 => gen::small(r.below(bits + 70) as u64, bits),
            1 if bits > 64 => {
                let mut v = gen::small(r.below(bits + 2) as u64, bits);
                let l = v.len();
                v[r.range(1, l - 1)] |= 1 << r.below(8);
                gen::canon(v, bits)
            }
            2 => b.clone(),
            _ => gen::hostile(&mut r, bits),
        };
        m.case("shift_uint", bits, vec![au(&a), au(&amt)]);
        let s32 = rand_amount32(&mut r, bits);
        wrapper_case(m, &mut r, bits, &a, &b, s32);
        let z = gen::hostile(&mut r, bits);
        let s32 = rand_amount32(&mut r, bits);
        traits_case(m, &mut r, bits, &a, &b, &z, s32);
        if i % 4 == 0 {
            let k = r.range(0, 9);
            let mut terms = vec![au(&a), au(&b), au(&z)];
            for _ in 0..k {
                terms.push(au(&gen::hostile(&mut r, bits)));
            }
            terms.truncate(k);
            m.case("sum_product", bits, terms);
        }
        if i % 16 == 0 {
            m.case("zeroize", bits, vec![au(&a)]);
        }
    }
}

fn main() {
    let mut m = Mon::new("C20", dispatch);
    // Also resets the per-call loop counters of the verification hooks for every
    // case (gcd/lcm/pow facades reach the counted loops).
    m.use_hooks = true;
    if !m.replay_if_requested() {
        loop {
            for &bits in WIDTHS {
                if m.width_enabled(bits) {
                    workload(&mut m, bits);
                }
            }
            if !m.another_light_pass() {
                break;
            }
        }
    }
    let kinds: Vec<&'static str> = KINDS.with(|k| k.borrow().iter().copied().collect());
    m.note("facade_entry_points", json!(kinds.len()));
    m.note("facade_entry_point_list", json!(kinds));
    m.finish();
}
