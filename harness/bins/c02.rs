//! C02 workload (under construction).
fn main() {}
