//! C02 — multiplication (wrapping/overflowing/checked/saturating, operators),
//! widening product over a (BITS, BITS_RHS) grid, ring inverse, Product.

use num_bigint::BigUint;
use num_traits::One;
use ruint::Uint;
use vmon::{an, au, big, gen, uint, Arg, Mon};

vmon::widths!(exec; 0, 1, 2, 3, 4, 7, 8, 16, 31, 32, 60, 63, 64, 65, 100, 127, 128, 129, 160, 192,
    250, 255, 256, 257, 320, 384, 512, 521, 1024, 1088, 2048, 4096);

const WGRID: &[usize] = &[0, 1, 7, 63, 64, 65, 128, 192, 256, 320];

fn widening_go<const B: usize, const L: usize, const R: usize, const LR: usize, const S: usize, const LS: usize>(
    m: &mut Mon,
    a: &[u64],
    b: &[u64],
) {
    let x: Uint<B, L> = uint(a);
    let y: Uint<R, LR> = uint(b);
    let p = big::big(a) * big::big(b);
    let e = big::limbs(&p, LS);
    m.obs(|| format!("product={}", big::hex(&e)));
    if let Some(v) = m.must(|| x.widening_mul::<R, LR, S, LS>(y)) {
        m.eq_uint("widening_mul", &v, &e);
    }
}

macro_rules! widening_inner {
    ($m:ident, $lb:ident, $rb:ident, $a:ident, $b:ident, $x:literal, [$($y:literal),*]) => {
        if $lb == $x {
            match $rb {
                $($y => return widening_go::<$x, { ($x + 63) / 64 }, $y, { ($y + 63) / 64 }, { $x + $y }, { ($x + $y + 63) / 64 }>($m, $a, $b),)*
                _ => {}
            }
        }
    };
}
macro_rules! widening_cross {
    ([$($x:literal),*], $ys:tt) => {
        fn widening(m: &mut Mon, lb: usize, rb: usize, a: &[u64], b: &[u64]) {
            $(widening_inner!(m, lb, rb, a, b, $x, $ys);)*
            panic!("harness: widening grid has no entry ({lb},{rb})");
        }
    };
}
widening_cross!([0, 1, 7, 63, 64, 65, 128, 192, 256, 320], [0, 1, 7, 63, 64, 65, 128, 192, 256, 320]);

/// A result type whose size is not exactly BITS + BITS_RHS must be refused (the documented runtime panic),
/// whatever the operands: it can never be filled with a product.
fn widening_bad_go<const B: usize, const L: usize, const S: usize, const LS: usize>(m: &mut Mon, a: &[u64], b: &[u64]) {
    let (x, y): (Uint<B, L>, Uint<B, L>) = (uint(a), uint(b));
    m.must_panic(|| format!("Uint<{S}> {:x?}", x.widening_mul::<B, L, S, LS>(y).as_limbs()), "Uint<S> is not the product type of Uint<B> x Uint<B>");
}

macro_rules! widening_bad_pairs {
    ($m:ident, $lb:expr, $a:expr, $b:expr; $(($x:literal, $s:literal)),* $(,)?) => {
        $(if $lb == $x { widening_bad_go::<$x, { ($x + 63) / 64 }, $s, { ($s + 63) / 64 }>($m, $a, $b); })*
    };
}

fn widening_bad(m: &mut Mon, lb: usize, a: &[u64], b: &[u64]) {
    widening_bad_pairs!(m, lb, a, b;
        (0, 1), (1, 1), (1, 3), (1, 64), (7, 13), (7, 15), (7, 64), (63, 125), (63, 127), (63, 64), (63, 128),
        (64, 64), (64, 100), (64, 127), (64, 129), (64, 192), (65, 129), (65, 131), (65, 128), (65, 192),
        (128, 128), (128, 192), (128, 255), (128, 257), (128, 320), (192, 320), (192, 383), (192, 385), (192, 448),
        (256, 256), (256, 448), (256, 511), (256, 513), (256, 576), (320, 576), (320, 639), (320, 641), (320, 704));
}

fn exec<const B: usize, const L: usize>(m: &mut Mon, op: &str, a: &[Arg]) {
    match op {
        "mul" => {
            let (x, y): (Uint<B, L>, Uint<B, L>) = (uint(a[0].u()), uint(a[1].u()));
            let p = big::big(a[0].u()) * big::big(a[1].u());
            let ovf = !big::fits(&p, B);
            let w = big::wrap(&p, B);
            m.nontrivial(!gen::is_zero(a[0].u()) && !gen::is_zero(a[1].u()));
            m.obs(|| format!("wrapped={} overflow={}", big::hex(&w), ovf));
            if let Some((v, f)) = m.must(|| x.overflowing_mul(y)) {
                m.eq_uint("overflowing_mul.value", &v, &w);
                m.eq("overflowing_mul.flag", &f, &ovf);
            }
            if let Some(v) = m.must(|| x.wrapping_mul(y)) {
                m.eq_uint("wrapping_mul", &v, &w);
            }
            if let Some(v) = m.must(|| x.checked_mul(y)) {
                match v {
                    Some(v) => {
                        m.eq("checked_mul.some", &true, &!ovf);
                        m.eq_uint("checked_mul.value", &v, &w);
                    }
                    None => {
                        m.eq("checked_mul.none", &true, &ovf);
                    }
                }
            }
            if let Some(v) = m.must(|| x.saturating_mul(y)) {
                let e = if ovf { gen::max(B) } else { w.clone() };
                m.eq_uint("saturating_mul", &v, &e);
            }
            if let Some(v) = m.must(|| x * y) {
                m.eq_uint("op*.vv", &v, &w);
            }
            if let Some(v) = m.must(|| x * &y) {
                m.eq_uint("op*.vr", &v, &w);
            }
            if let Some(v) = m.must(|| &x * y) {
                m.eq_uint("op*.rv", &v, &w);
            }
            if let Some(v) = m.must(|| &x * &y) {
                m.eq_uint("op*.rr", &v, &w);
            }
            if a[0].u() == a[1].u() {
                // both operands are the very same object
                if let Some(v) = m.must(|| &x * &x) {
                    m.eq_uint("op*.rr.alias", &v, &w);
                }
            }
            if let Some(v) = m.must(|| {
                let mut z = x;
                z *= y;
                z
            }) {
                m.eq_uint("op*=.v", &v, &w);
            }
            if let Some(v) = m.must(|| {
                let mut z = x;
                z *= &y;
                z
            }) {
                m.eq_uint("op*=.r", &v, &w);
            }
        }
        "inv_ring" => {
            let x: Uint<B, L> = uint(a[0].u());
            let bx = big::big(a[0].u());
            let odd = B > 0 && a[0].u()[0] & 1 == 1;
            m.nontrivial(bx > BigUint::one());
            if let Some(r) = m.must(|| x.inv_ring()) {
                match r {
                    Some(v) => {
                        m.canonical(&v);
                        m.eq("inv_ring.some", &true, &odd);
                        let prod = (bx * big::big(v.as_limbs())) % big::p2(B);
                        m.check(prod.is_one(), "inv_ring.value", || "a*x = 1 mod 2^BITS".into(), || {
                            format!("x={} a*x mod 2^BITS={}", big::hex(v.as_limbs()), big::bhex(&prod))
                        });
                        m.obs(|| format!("inverse={}", big::hex(v.as_limbs())));
                    }
                    None => {
                        m.eq("inv_ring.none", &true, &!odd);
                    }
                }
            }
        }
        "widening" => {
            let rb = a[2].us();
            m.nontrivial(!gen::is_zero(a[0].u()) && !gen::is_zero(a[1].u()));
            widening(m, B, rb, a[0].u(), a[1].u());
        }
        "widening_bad" => {
            m.nontrivial(!gen::is_zero(a[0].u()) && !gen::is_zero(a[1].u()));
            widening_bad(m, B, a[0].u(), a[1].u());
        }
        "product" | "product_rep" => {
            // product_rep: (v, w, n) stands for the n factors v, w, v, w, ...
            let terms: Vec<&[u64]> = if op == "product_rep" { (0..a[2].us()).map(|i| a[i % 2].u()).collect() } else { a.iter().map(|x| x.u()).collect() };
            let xs: Vec<Uint<B, L>> = terms.iter().map(|x| uint(x)).collect();
            let mut p = BigUint::one();
            let modulus = big::p2(B);
            for x in &terms {
                p = (p * big::big(x)) % &modulus;
            }
            let w = big::wrap(&p, B);
            m.nontrivial(terms.len() >= 2 && terms.iter().all(|x| !gen::is_zero(x)));
            m.obs(|| format!("product of {} factors = {}", terms.len(), big::hex(&w)));
            if let Some(v) = m.must(|| xs.iter().copied().product::<Uint<B, L>>()) {
                m.eq_uint("product.values", &v, &w);
            }
            if let Some(v) = m.must(|| xs.iter().product::<Uint<B, L>>()) {
                m.eq_uint("product.refs", &v, &w);
            }
            // the same factors through iterators of other kinds (no / partial size_hint, adaptors, by_ref)
            macro_rules! each {
                ($label:literal, $e:expr) => {
                    if let Some(v) = m.must(|| $e) {
                        m.eq_uint(concat!("product.", $label), &v, &w);
                    }
                };
            }
            vmon::iter_kinds!(xs, Uint<B, L>, product; each);
        }
        _ => panic!("harness: unknown op {op}"),
    }
}

fn pair(m: &mut Mon, bits: usize, a: &[u64], b: &[u64]) {
    m.case("mul", bits, vec![au(a), au(b)]);
}

/// Operands whose product is 2^bits +- small: a = ceil(2^bits / b) and neighbours.
fn near_overflow(m: &mut Mon, bits: usize, b: &[u64]) {
    let bb = big::big(b);
    if big::is_zero(&bb) {
        return;
    }
    let t = big::p2(bits);
    let q = &t / &bb;
    for d in 0..3u32 {
        for cand in [&q + d, if q >= BigUint::from(d) { &q - d } else { q.clone() }] {
            if big::fits(&cand, bits) {
                let a = big::limbs(&cand, gen::nlimbs(bits));
                pair(m, bits, &a, b);
                pair(m, bits, b, &a);
            }
        }
    }
}

fn workload(m: &mut Mon, bits: usize) {
    // Shape corpora for the interpreter lanes, unthinned and first (a light lane executes about one `mul` case per
    // width otherwise, and may run out of its time slice before the end of this function): single non-zero limbs at
    // every pair of offsets, so that the low zero limbs of the operands together reach and exceed the limb count.
    let n = gen::nlimbs(bits);
    if m.is_light() && (2..=5).contains(&n) {
        let mut idx = 0u64;
        for i in 0..n {
            for j in 0..n {
                idx += 1;
                if m.light_owns(idx, "mul") {
                    let mut a = gen::zero(bits);
                    let mut b = gen::zero(bits);
                    a[i] = u64::MAX;
                    b[j] = 3;
                    m.case_always("mul", bits, vec![au(&gen::canon(a, bits)), au(&gen::canon(b, bits))]);
                }
            }
        }
    }
    // inv_ring lifts its result limb-count-doubling step by step (1, 2, 4, 8, ... correct limbs), so limb counts that
    // are not a power of two are a memory shape of their own; the interpreter lanes get two odd values at every
    // width unthinned (seeded change C02-J: a multiplicand prefix slice of 4 limbs over a 3-limb value).
    if m.is_light() && n >= 1 {
        for (k, v) in [gen::max(bits), gen::small(1, bits)].into_iter().enumerate() {
            if m.light_owns(k as u64, "inv_ring") {
                m.case_always("inv_ring", bits, vec![au(&v)]);
            }
        }
    }
    if bits <= 4 {
        for a in 0..(1u64 << bits) {
            m.case("inv_ring", bits, vec![au(&gen::small(a, bits))]);
            for b in 0..(1u64 << bits) {
                if !m.keep() {
                    continue;
                }
                pair(m, bits, &gen::small(a, bits), &gen::small(b, bits));
            }
        }
        if !m.is_light() {
            m.mark_exhaustive(format!("all operand pairs for mul and all values for inv_ring at BITS={bits}"));
        }
    }
    let bd = gen::boundary(bits);
    let mut r = m.stream("c02.directed", bits);
    for a in &bd {
        if !m.keep() {
            continue;
        }
        m.case("inv_ring", bits, vec![au(a)]);
        let mut partners = vec![a.clone(), gen::zero(bits), gen::max(bits)];
        if bits > 0 {
            partners.push(gen::small(1, bits));
            partners.push(gen::small(2, bits));
            partners.push(gen::pow2(bits - 1, bits));
            partners.push(gen::pow2(bits / 2, bits));
            partners.push(gen::ones((bits + 1) / 2, bits));
            for _ in 0..6 {
                partners.push(r.pick(&bd).clone());
            }
        }
        for b in &partners {
            pair(m, bits, a, b);
            pair(m, bits, b, a);
        }
        if bits > 0 && bits <= 1088 {
            near_overflow(m, bits, a);
        }
    }
    // widening grid (the left width is this width)
    if WGRID.contains(&bits) {
        let mut r = m.stream("c02.widening", bits);
        for &rb in WGRID {
            let bda = gen::boundary(bits);
            let bdb = gen::boundary(rb);
            for a in bda.iter().take(40) {
                for b in bdb.iter().take(12) {
                    if !m.keep() {
                        continue;
                    }
                    m.case("widening", bits, vec![au(a), au(b), an(rb)]);
                }
            }
            m.case("widening", bits, vec![au(&gen::max(bits)), au(&gen::max(rb)), an(rb)]);
            if rb == bits {
                // result types of the wrong size (one bit short or long, a limb short or long, same limb count but fewer bits)
                for v in [gen::max(bits), gen::small(1, bits), gen::zero(bits)] {
                    m.case("widening_bad", bits, vec![au(&v), au(&v)]);
                }
                for _ in 0..m.iters(40) {
                    let a = gen::hostile(&mut r, bits);
                    let b = gen::hostile(&mut r, bits);
                    m.case("widening_bad", bits, vec![au(&a), au(&b)]);
                }
            }
            for _ in 0..m.iters(400) {
                let a = gen::hostile(&mut r, bits);
                let b = gen::hostile(&mut r, rb);
                m.case("widening", bits, vec![au(&a), au(&b), an(rb)]);
            }
        }
    }
    if bits == 0 {
        m.case("product", bits, vec![au(&[]), au(&[])]);
        m.case("product", bits, vec![]);
        return;
    }
    m.case("product", bits, vec![]); // the empty product is one
    m.case("product", bits, vec![au(&gen::max(bits))]);
    // long products of odd factors (the product never collapses to zero)
    if !m.is_light() && bits <= 1088 {
        let mut r = m.stream("c02.longproduct", bits);
        for n in [255usize, 256, 257, 300, 513, if bits <= 256 { 4097 } else { 1025 }] {
            m.case("product_rep", bits, vec![au(&gen::max(bits)), au(&gen::max(bits)), an(n)]);
            let mut v = gen::hostile(&mut r, bits);
            v[0] |= 1;
            let mut w = gen::uniform(&mut r, bits);
            w[0] |= 1;
            m.case("product_rep", bits, vec![au(&v), au(&w), an(n)]);
            m.case("product_rep", bits, vec![au(&gen::small(3, bits)), au(&gen::max(bits)), an(n)]);
        }
    }
    // Sparse operands aimed at addmul's zero trimming and short-window arms:
    // a = x * 2^(64 i), b = y * 2^(64 j) for all limb offsets.
    let n = gen::nlimbs(bits);
    let mut r = m.stream("c02.sparse", bits);
    for i in 0..n {
        for j in 0..n {
            if n > 16 && (i % 5 != 0 && i != n - 1) && (j % 5 != 0 && j != n - 1) {
                continue;
            }
            if !m.keep() {
                continue;
            }
            for _ in 0..2 {
                let mut a = gen::zero(bits);
                let mut b = gen::zero(bits);
                a[i] = gen::alpha_limb(&mut r) | 1;
                b[j] = gen::alpha_limb(&mut r) | 1;
                if r.bool() && i + 1 < n {
                    a[i + 1] = gen::alpha_limb(&mut r);
                }
                if r.bool() && j + 1 < n {
                    b[j + 1] = gen::alpha_limb(&mut r);
                }
                pair(m, bits, &gen::canon(a, bits), &gen::canon(b, bits));
            }
        }
    }
    // Low zero limbs on both operands plus an interior zero limb in one of them (a zero row inside the
    // schoolbook loop while the accumulator window is nearly exhausted).
    if n >= 3 {
        let mut r = m.stream("c02.sparse3", bits);
        for _ in 0..m.iters(if n <= 16 { 300 } else { 60 }) {
            if !m.keep() {
                continue;
            }
            let mk = |r: &mut vmon::rng::Rng, interior: bool| -> Vec<u64> {
                let mut v = gen::zero(bits);
                let lo = r.range(0, n - 1);
                let span = r.range(1, (n - lo).min(4));
                for k in 0..span {
                    v[lo + k] = gen::alpha_limb(r) | 1;
                }
                if interior && span >= 3 {
                    v[lo + r.range(1, span - 2)] = 0;
                }
                gen::canon(v, bits)
            };
            let ia = r.bool();
            let a = mk(&mut r, ia);
            let b = mk(&mut r, true);
            pair(m, bits, &a, &b);
            pair(m, bits, &b, &a);
        }
    }
    // Random hostile pairs.
    let mut r = m.stream("c02.random", bits);
    let iters = m.iters(if bits <= 256 { 6000 } else if bits <= 1024 { 2000 } else { 400 });
    for i in 0..iters {
        if i % 256 == 0 && m.time_up() {
            break;
        }
        let a = gen::hostile(&mut r, bits);
        let b = gen::hostile(&mut r, bits);
        pair(m, bits, &a, &b);
        if i % 8 == 0 && bits <= 1088 {
            near_overflow(m, bits, &a);
        }
        if i % 4 == 0 {
            let mut o = a.clone();
            o[0] |= 1;
            m.case("inv_ring", bits, vec![au(&o)]);
            m.case("inv_ring", bits, vec![au(&b)]);
        }
        if i % 8 == 0 {
            let k = r.range(0, 7);
            let mut terms = vec![au(&a), au(&b)];
            for _ in 0..k {
                let mut t = gen::hostile(&mut r, bits);
                if r.bool() {
                    t[0] |= 1;
                }
                terms.push(au(&t));
            }
            terms.truncate(k.max(1));
            m.case("product", bits, terms);
        }
    }
}

fn main() {
    let mut m = Mon::new("C02", dispatch);
    m.use_hooks = true;
    if !m.replay_if_requested() {
        loop {
            for &bits in WIDTHS {
                if m.width_enabled(bits) {
                    workload(&mut m, bits);
                }
            }
            if !m.another_light_pass() {
                break;
            }
        }
    }
    m.finish();
}
