//! C06 — bitwise logic, bit/byte access and bit counting vs the BITS-wide
//! binary expansion of the value.

use num_bigint::BigUint;
use num_traits::{One, ToPrimitive, Zero};
use ruint::Uint;
use vmon::{an, au, big, gen, uint, Arg, Mon};

vmon::widths!(exec; 0, 1, 2, 3, 7, 8, 9, 16, 31, 32, 60, 63, 64, 65, 100, 127, 128, 129, 160, 192, 193,
    250, 255, 256, 257, 320, 384, 512, 521, 1024, 2048, 4096, 4160, 16448);

fn bit_of(v: &[u64], i: usize) -> bool {
    i / 64 < v.len() && (v[i / 64] >> (i % 64)) & 1 == 1
}

fn exec<const B: usize, const L: usize>(m: &mut Mon, op: &str, a: &[Arg]) {
    match op {
        "logic" => {
            let (x, y): (Uint<B, L>, Uint<B, L>) = (uint(a[0].u()), uint(a[1].u()));
            let (lx, ly) = (a[0].u(), a[1].u());
            let e_and: Vec<u64> = lx.iter().zip(ly).map(|(p, q)| p & q).collect();
            let e_or: Vec<u64> = lx.iter().zip(ly).map(|(p, q)| p | q).collect();
            let e_xor: Vec<u64> = lx.iter().zip(ly).map(|(p, q)| p ^ q).collect();
            let e_not = gen::canon(lx.iter().map(|p| !p).collect(), B);
            let mx = gen::max(B);
            m.nontrivial(!(gen::is_zero(lx) || lx == &mx[..]) || !(gen::is_zero(ly) || ly == &mx[..]));
            m.obs(|| format!("and={} or={} xor={} not(a)={}", big::hex(&e_and), big::hex(&e_or), big::hex(&e_xor), big::hex(&e_not)));
            macro_rules! shapes {
                ($opname:literal, $op:tt, $opa:tt, $e:ident) => {
                    if let Some(v) = m.must(|| x $op y) { m.eq_uint(concat!($opname, ".vv"), &v, &$e); }
                    if let Some(v) = m.must(|| x $op &y) { m.eq_uint(concat!($opname, ".vr"), &v, &$e); }
                    if let Some(v) = m.must(|| &x $op y) { m.eq_uint(concat!($opname, ".rv"), &v, &$e); }
                    if let Some(v) = m.must(|| &x $op &y) { m.eq_uint(concat!($opname, ".rr"), &v, &$e); }
                    if let Some(v) = m.must(|| { let mut z = x; z $opa y; z }) { m.eq_uint(concat!($opname, "=.v"), &v, &$e); }
                    if let Some(v) = m.must(|| { let mut z = x; z $opa &y; z }) { m.eq_uint(concat!($opname, "=.r"), &v, &$e); }
                    if lx == ly {
                        // both operands are the very same object
                        if let Some(v) = m.must(|| &x $op &x) { m.eq_uint(concat!($opname, ".rr.alias"), &v, &$e); }
                    }
                };
            }
            shapes!("op&", &, &=, e_and);
            shapes!("op|", |, |=, e_or);
            shapes!("op^", ^, ^=, e_xor);
            if let Some(v) = m.must(|| !x) {
                m.eq_uint("op!.v", &v, &e_not);
            }
            if let Some(v) = m.must(|| !&x) {
                m.eq_uint("op!.r", &v, &e_not);
            }
            if let Some(v) = m.must(|| x.not()) {
                m.eq_uint("not", &v, &e_not);
            }
        }
        "count" => {
            let x: Uint<B, L> = uint(a[0].u());
            let lx = a[0].u();
            let bv = big::big(lx);
            let mx = gen::max(B);
            m.nontrivial(!(gen::is_zero(lx) || lx == &mx[..]));
            let bitlen = bv.bits() as usize;
            let ones = (0..B).filter(|&i| bit_of(lx, i)).count();
            let lz = B - bitlen;
            let lo = (0..B).rev().take_while(|&i| bit_of(lx, i)).count();
            let tz = (0..B).take_while(|&i| !bit_of(lx, i)).count();
            let to = (0..B).take_while(|&i| bit_of(lx, i)).count();
            m.obs(|| format!("bit_len={bitlen} ones={ones} lz={lz} lo={lo} tz={tz} to={to}"));
            if let Some(v) = m.must(|| x.leading_zeros()) {
                m.eq("leading_zeros", &v, &lz);
            }
            if let Some(v) = m.must(|| x.leading_ones()) {
                m.eq("leading_ones", &v, &lo);
            }
            if let Some(v) = m.must(|| x.trailing_zeros()) {
                m.eq("trailing_zeros", &v, &tz);
            }
            if let Some(v) = m.must(|| x.trailing_ones()) {
                m.eq("trailing_ones", &v, &to);
            }
            if let Some(v) = m.must(|| x.count_ones()) {
                m.eq("count_ones", &v, &ones);
            }
            if let Some(v) = m.must(|| x.count_zeros()) {
                m.eq("count_zeros", &v, &(B - ones));
            }
            if let Some(v) = m.must(|| x.bit_len()) {
                m.eq("bit_len", &v, &bitlen);
            }
            if let Some(v) = m.must(|| x.byte_len()) {
                m.eq("byte_len", &v, &((bitlen + 7) / 8));
            }
            if let Some(v) = m.must(|| x.is_power_of_two()) {
                m.eq("is_power_of_two", &v, &(ones == 1));
            }
            // reverse_bits over exactly BITS bits
            let mut rev = gen::zero(B);
            for i in 0..B {
                if bit_of(lx, i) {
                    let j = B - 1 - i;
                    rev[j / 64] |= 1 << (j % 64);
                }
            }
            if let Some(v) = m.must(|| x.reverse_bits()) {
                m.eq_uint("reverse_bits", &v, &rev);
            }
            // next power of two: least 2^k >= value, None if it does not fit
            let np: Option<BigUint> = {
                let p = if bv.is_zero() || ones == 1 { if bv.is_zero() { BigUint::one() } else { bv.clone() } } else { big::p2(bitlen) };
                if big::fits(&p, B) {
                    Some(p)
                } else {
                    None
                }
            };
            if let Some(v) = m.must(|| x.checked_next_power_of_two()) {
                match (&v, &np) {
                    (Some(v), Some(p)) => {
                        m.eq_uint("checked_next_power_of_two.value", v, &big::limbs(p, L));
                    }
                    (None, None) => {}
                    _ => m.fail("checked_next_power_of_two.option", &format!("{:?}", np.as_ref().map(big::bhex)), &format!("{v:?}")),
                }
            }
            match &np {
                Some(p) => {
                    if let Some(v) = m.must_in("next_power_of_two", || x.next_power_of_two()) {
                        m.eq_uint("next_power_of_two", &v, &big::limbs(p, L));
                    }
                }
                None => {
                    m.must_panic(|| x.next_power_of_two(), "no power of two fits");
                }
            }
            // most significant bits: (v, 0) if bit_len <= 64 else (v >> (bit_len-64), bit_len-64)
            let e_msb = if bitlen <= 64 {
                (bv.to_u64().unwrap(), 0usize)
            } else {
                ((&bv >> (bitlen - 64)).to_u64().unwrap(), bitlen - 64)
            };
            if let Some(v) = m.must(|| x.most_significant_bits()) {
                m.eq("most_significant_bits", &v, &e_msb);
            }
        }
        "index" => {
            let x: Uint<B, L> = uint(a[0].u());
            let lx = a[0].u();
            let i = a[1].us();
            let bytes = (B + 7) / 8;
            m.nontrivial(true);
            let e_bit = i < B && bit_of(lx, i);
            if let Some(v) = m.must(|| x.bit(i)) {
                m.eq("bit", &v, &e_bit);
            }
            for val in [true, false] {
                let mut e = lx.to_vec();
                if i < B {
                    if val {
                        e[i / 64] |= 1 << (i % 64);
                    } else {
                        e[i / 64] &= !(1 << (i % 64));
                    }
                }
                if let Some(v) = m.must(|| {
                    let mut z = x;
                    z.set_bit(i, val);
                    z
                }) {
                    m.eq_uint(if val { "set_bit.true" } else { "set_bit.false" }, &v, &e);
                }
            }
            let e_byte = if i < bytes { Some(((lx[i / 8] >> (8 * (i % 8))) & 0xff) as u8) } else { None };
            m.obs(|| format!("bit={e_bit} byte={e_byte:?}"));
            if let Some(v) = m.must(|| x.checked_byte(i)) {
                m.eq("checked_byte", &v, &e_byte);
            }
            match e_byte {
                Some(b) => {
                    if let Some(v) = m.must_in("byte", || x.byte(i)) {
                        m.eq("byte", &v, &b);
                    }
                }
                None => {
                    m.must_panic(|| x.byte(i), "index >= BYTES");
                }
            }
        }
        _ => panic!("harness: unknown op {op}"),
    }
    let _ = BigUint::zero();
}

fn workload(m: &mut Mon, bits: usize) {
    let bd = gen::boundary(bits);
    let mut r = m.stream("c06.directed", bits);
    // structured values: single bits / single zeros at every position (thinned on wide types),
    // runs of ones starting / ending at every limb boundary
    let mut values: Vec<Vec<u64>> = bd.clone();
    let step = if bits <= 257 { 1 } else if bits <= 1024 { 7 } else { 61 };
    let mut p = 0;
    while p < bits {
        values.push(gen::pow2(p, bits));
        let mut v = gen::max(bits);
        v[p / 64] &= !(1 << (p % 64));
        values.push(v);
        p += step;
    }
    for k in (0..=bits).step_by(64) {
        for d in [0usize, 1, 63] {
            if k + d <= bits {
                values.push(gen::ones(k + d, bits)); // run ending at k+d
                let lo = gen::ones(k + d, bits);
                values.push(gen::max(bits).iter().zip(lo.iter()).map(|(h, l)| h & !l).collect()); // run starting at k+d
            }
        }
    }
    for v in &values {
        if !m.keep() {
            continue;
        }
        m.case("count", bits, vec![au(v)]);
        let w = r.pick(&values).clone();
        m.case("logic", bits, vec![au(v), au(&w)]);
        m.case("logic", bits, vec![au(v), au(v)]);
    }
    // every index in [0, BITS+64] on a few values
    let idx_values: Vec<Vec<u64>> = vec![gen::max(bits), gen::zero(bits), gen::alphabet(&mut r, bits), gen::uniform(&mut r, bits),
                                         gen::ones(bits / 2, bits)];
    for v in &idx_values {
        for i in 0..=bits + 64 {
            if bits > 1024 && i % 3 != 0 && i + 70 < bits {
                continue;
            }
            if !m.keep() {
                continue;
            }
            m.case("index", bits, vec![au(v), an(i)]);
        }
    }
    if bits <= 1024 && !m.is_light() {
        m.mark_exhaustive(format!("BITS={bits}: every index in [0, BITS+64] for bit/set_bit/byte/checked_byte on 5 values"));
    }
    for i in [usize::MAX, usize::MAX - 1, usize::MAX / 8, usize::MAX / 8 + 1, usize::MAX / 64, usize::MAX / 64 + 1, 1 << 32, 1 << 61, (1 << 61) + 1,
              (1 << 62) + 3, 1 << 63, (1 << 63) + 7, usize::MAX / 2, usize::MAX / 2 + 1] {
        m.case("index", bits, vec![au(&gen::max(bits)), an(i)]);
        m.case("index", bits, vec![au(&gen::zero(bits)), an(i)]);
    }
    // random
    let mut r = m.stream("c06.random", bits);
    let iters = m.iters(if bits <= 256 { 5000 } else if bits <= 1024 { 2000 } else { 500 });
    for i in 0..iters {
        if i % 256 == 0 && m.time_up() {
            break;
        }
        let a = gen::hostile(&mut r, bits);
        let b = gen::hostile(&mut r, bits);
        m.case("count", bits, vec![au(&a)]);
        m.case("logic", bits, vec![au(&a), au(&b)]);
        m.case("index", bits, vec![au(&a), an(r.below(bits + 66))]);
    }
}

fn main() {
    let mut m = Mon::new("C06", dispatch);
    if !m.replay_if_requested() {
        loop {
            for &bits in WIDTHS {
                if m.width_enabled(bits) {
                    workload(&mut m, bits);
                }
            }
            if !m.another_light_pass() {
                break;
            }
        }
    }
    m.finish();
}
