//! C06 workload (under construction).
fn main() {}
