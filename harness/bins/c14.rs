//! C14 — limb-slice division kernels of `ruint::algorithms::div` vs BigUint,
//! each inside its documented (and debug-asserted) preconditions.

use num_bigint::BigUint;
use num_traits::{One, ToPrimitive, Zero};
use ruint::algorithms::div as d;
use vmon::{au, big, divgen, gen, rng::Rng, Arg, Mon};

pub fn dispatch(m: &mut Mon, _bits: usize, op: &str, a: &[Arg]) {
    exec(m, op, a)
}

fn u128_of(a: &Arg) -> u128 {
    a.n()
}

fn exec(m: &mut Mon, op: &str, a: &[Arg]) {
    match op {
        // quotient left in numerator, remainder in divisor, any lengths / padding
        "div" => {
            let (n0, d0) = (a[0].u().to_vec(), a[1].u().to_vec());
            let (bn, bd) = (big::big(&n0), big::big(&d0));
            if bd.is_zero() {
                m.nontrivial(false);
                let (mut n, mut dv) = (n0.clone(), d0.clone());
                m.must_panic(|| d::div(&mut n, &mut dv), "zero divisor");
                return;
            }
            let (q, r) = (&bn / &bd, &bn % &bd);
            m.nontrivial(n0.len() >= 2 || d0.len() >= 2);
            let (mut n, mut dv) = (n0.clone(), d0.clone());
            if m.must(|| d::div(&mut n, &mut dv)).is_some() {
                m.obs(|| format!("q={} r={}", big::hex(&n), big::hex(&dv)));
                // the quotient always fits the numerator slice, the remainder the divisor slice
                m.eq("div.quotient", &n, &big::limbs(&q, n0.len()));
                m.eq("div.remainder", &dv, &big::limbs(&r, d0.len()));
            }
        }
        // numerator >= divisor >= 3 limbs, divisor top limb non-zero
        "div_nxm" => {
            let (n0, d0) = (a[0].u().to_vec(), a[1].u().to_vec());
            let (bn, bd) = (big::big(&n0), big::big(&d0));
            let (q, r) = (&bn / &bd, &bn % &bd);
            let (mut n, mut dv) = (n0.clone(), d0.clone());
            if m.must(|| d::div_nxm(&mut n, &mut dv)).is_some() {
                m.eq("div_nxm.quotient", &n, &big::limbs(&q, n0.len()));
                m.eq("div_nxm.remainder", &dv, &big::limbs(&r, d0.len()));
            }
        }
        // divisor normalised, >= 2 limbs; numerator's top dl limbs < divisor so
        // that the quotient fits the nl - dl limbs left for it; remainder is
        // left in numerator[..dl], quotient in numerator[dl..].
        "div_nxm_normalized" => {
            let (n0, d0) = (a[0].u().to_vec(), a[1].u().to_vec());
            let (bn, bd) = (big::big(&n0), big::big(&d0));
            let (q, r) = (&bn / &bd, &bn % &bd);
            let dl = d0.len();
            let mut n = n0.clone();
            if m.must(|| d::div_nxm_normalized(&mut n, &d0)).is_some() {
                let (rem, quo) = n.split_at(dl);
                m.eq("div_nxm_normalized.quotient", &quo.to_vec(), &big::limbs(&q, n0.len() - dl));
                m.eq("div_nxm_normalized.remainder", &rem.to_vec(), &big::limbs(&r, dl));
            }
        }
        "div_nx1" | "div_nx1_normalized" => {
            let n0 = a[0].u().to_vec();
            let dv = u128_of(&a[1]) as u64;
            let (bn, bd) = (big::big(&n0), BigUint::from(dv));
            let (q, r) = (&bn / &bd, &bn % &bd);
            let mut n = n0.clone();
            let norm = op == "div_nx1_normalized";
            if let Some(rem) = m.must(|| if norm { d::div_nx1_normalized(&mut n, dv) } else { d::div_nx1(&mut n, dv) }) {
                m.eq("quotient", &n, &big::limbs(&q, n0.len()));
                m.eq("remainder", &rem, &r.to_u64().unwrap());
            }
        }
        "div_nx2" | "div_nx2_normalized" => {
            let n0 = a[0].u().to_vec();
            let dv = u128_of(&a[1]);
            let (bn, bd) = (big::big(&n0), BigUint::from(dv));
            let (q, r) = (&bn / &bd, &bn % &bd);
            let mut n = n0.clone();
            let norm = op == "div_nx2_normalized";
            if let Some(rem) = m.must(|| if norm { d::div_nx2_normalized(&mut n, dv) } else { d::div_nx2(&mut n, dv) }) {
                m.eq("quotient", &n, &big::limbs(&q, n0.len()));
                m.eq("remainder", &rem, &r.to_u128().unwrap());
            }
        }
        // u < d * 2^64, d >= 2^63
        "div_2x1" => {
            let u = u128_of(&a[0]);
            let dv = u128_of(&a[1]) as u64;
            let e = ((u / u128::from(dv)) as u64, (u % u128::from(dv)) as u64);
            if let Some(v) = m.must_in("reciprocal", || d::reciprocal(dv)) {
                if let Some(r) = m.must_in("div_2x1", || d::div_2x1(u, dv, v)) {
                    m.eq("div_2x1", &r, &e);
                }
                if let Some(r) = m.must_in("div_2x1_mg10", || d::div_2x1_mg10(u, dv, v)) {
                    m.eq("div_2x1_mg10", &r, &e);
                }
            }
            if let Some(r) = m.must_in("div_2x1_ref", || d::div_2x1_ref(u, dv)) {
                m.eq("div_2x1_ref", &r, &e);
            }
        }
        // u21 < d, d >= 2^127
        "div_3x2" => {
            let u21 = u128_of(&a[0]);
            let u0 = u128_of(&a[1]) as u64;
            let dv = u128_of(&a[2]);
            let n: BigUint = (BigUint::from(u21) << 64usize) + BigUint::from(u0);
            let bd = BigUint::from(dv);
            let e = ((&n / &bd).to_u64().unwrap(), (&n % &bd).to_u128().unwrap());
            if let Some(v) = m.must_in("reciprocal_2", || d::reciprocal_2(dv)) {
                if let Some(r) = m.must_in("div_3x2", || d::div_3x2(u21, u0, dv, v)) {
                    m.eq("div_3x2", &r, &e);
                }
                if let Some(r) = m.must_in("div_3x2_mg10", || d::div_3x2_mg10(u21, u0, dv, v)) {
                    m.eq("div_3x2_mg10", &r, &e);
                }
            }
            // div_3x2_ref is documented in its own source as "off by one"; it has
            // no contract to check. Its behaviour is only counted.
            if let Ok(q) = m.call(|| d::div_3x2_ref(u21, u0, dv)) {
                if q != e.0 {
                    m.note_add("div_3x2_ref_differs_from_true_quotient", 1);
                }
            } else {
                m.note_add("div_3x2_ref_panicked", 1);
            }
        }
        // d >= 2^63
        "reciprocal" => {
            let dv = u128_of(&a[0]) as u64;
            let e = (u128::MAX / u128::from(dv) - (1u128 << 64)) as u64;
            m.obs(|| format!("reciprocal={e:#x}"));
            if let Some(v) = m.must_in("reciprocal", || d::reciprocal(dv)) {
                m.eq("reciprocal", &v, &e);
            }
            if let Some(v) = m.must_in("reciprocal_mg10", || d::reciprocal_mg10(dv)) {
                m.eq("reciprocal_mg10", &v, &e);
            }
            if let Some(v) = m.must_in("reciprocal_ref", || d::reciprocal_ref(dv)) {
                m.eq("reciprocal_ref", &v, &e);
            }
        }
        // d >= 2^127
        "reciprocal_2" => {
            let dv = u128_of(&a[0]);
            let e = ((big::p2(192) - 1u32) / BigUint::from(dv) - big::p2(64)).to_u64().expect("harness: reciprocal_2 oracle");
            m.obs(|| format!("reciprocal_2={e:#x}"));
            if let Some(v) = m.must_in("reciprocal_2", || d::reciprocal_2(dv)) {
                m.eq("reciprocal_2", &v, &e);
            }
            if let Some(v) = m.must_in("reciprocal_2_mg10", || d::reciprocal_2_mg10(dv)) {
                m.eq("reciprocal_2_mg10", &v, &e);
            }
        }
        _ => panic!("harness: unknown op {op}"),
    }
}

fn pad(mut v: Vec<u64>, len: usize) -> Vec<u64> {
    v.resize(len.max(v.len()), 0);
    v
}

fn trimmed(v: &BigUint) -> Vec<u64> {
    v.to_u64_digits()
}

fn alpha_u128(r: &mut Rng) -> u128 {
    (u128::from(gen::alpha_limb(r)) << 64) | u128::from(gen::alpha_limb(r))
}

fn norm64(r: &mut Rng) -> u64 {
    match r.below(8) {
        0 => 1 << 63,
        1 => u64::MAX,
        2 => (1 << 63) + 1,
        3 => u64::MAX - 1,
        4 => (1u64 << 63) | (1u64 << r.below(63)),
        5 => !(1u64 << r.below(63)),
        _ => r.u64() | (1 << 63),
    }
}

fn norm128(r: &mut Rng) -> u128 {
    match r.below(8) {
        0 => 1 << 127,
        1 => u128::MAX,
        2 => (1 << 127) + 1,
        3 => u128::join_hi(norm64(r), 0),
        4 => u128::join_hi(norm64(r), u64::MAX),
        _ => alpha_u128(r) | (1 << 127),
    }
}

trait JoinHi {
    fn join_hi(hi: u64, lo: u64) -> u128;
}
impl JoinHi for u128 {
    fn join_hi(hi: u64, lo: u64) -> u128 {
        (u128::from(hi) << 64) | u128::from(lo)
    }
}

fn workload(m: &mut Mon) {
    // ---- reciprocal: every table row (first / last / middle d of the row), anchors
    for row in 0..256u64 {
        let first = (256 + row) << 55;
        let last = first | ((1u64 << 55) - 1);
        for dv in [first, first + 1, last, last - 1, first | (1 << 54), first | 0x2a_aaaa_aaaa_aaaa] {
            if !m.keep() {
                continue;
            }
            m.case("reciprocal", 64, vec![Arg::N(u128::from(dv))]);
            for lo in [0u64, 1, u64::MAX, 1 << 63] {
                m.case("reciprocal_2", 128, vec![Arg::N(u128::join_hi(dv, lo))]);
            }
        }
    }
    if !m.is_light() {
        m.mark_exhaustive("all 256 reciprocal table rows (first, last and interior d of each row)");
    }
    for dv in [1u128 << 127, u128::MAX, (1 << 127) + 1, u128::MAX - 1, 0xd555_5555_5555_5555_5555_5555_5555_5555,
               170141183460488574554024512018559533057] {
        m.case("reciprocal_2", 128, vec![Arg::N(dv)]);
    }
    let mut r = m.stream("c14.recip", 0);
    for i in 0..m.iters(60_000) {
        if i % 1024 == 0 && m.time_up() {
            break;
        }
        m.case("reciprocal", 64, vec![Arg::N(u128::from(norm64(&mut r)))]);
        m.case("reciprocal_2", 128, vec![Arg::N(norm128(&mut r))]);
    }
    // ---- div_2x1 / div_3x2 : alphabet grid that reaches both adjustments
    let mut r = m.stream("c14.small", 0);
    for i in 0..m.iters(150_000) {
        if i % 1024 == 0 && m.time_up() {
            break;
        }
        let dv = norm64(&mut r);
        // u = q*d + rem with q, rem hostile, or hostile high word below d
        let u = match r.below(3) {
            0 => {
                let q = gen::alpha_limb(&mut r);
                let rem = gen::alpha_limb(&mut r) % dv;
                u128::from(q) * u128::from(dv) + u128::from(rem)
            }
            1 => u128::join_hi(gen::alpha_limb(&mut r) % dv, gen::alpha_limb(&mut r)),
            _ => u128::join_hi(dv - 1, gen::alpha_limb(&mut r)),
        };
        m.case("div_2x1", 128, vec![Arg::N(u), Arg::N(u128::from(dv))]);
        let d2 = norm128(&mut r);
        let (u21, u0) = match r.below(4) {
            0 => (alpha_u128(&mut r) % d2, gen::alpha_limb(&mut r)),
            1 => (d2 - 1, gen::alpha_limb(&mut r)),
            2 => {
                // n = q*d + rem
                let q = gen::alpha_limb(&mut r);
                let rem = alpha_u128(&mut r) % d2;
                let n = BigUint::from(q) * BigUint::from(d2) + BigUint::from(rem);
                let lo = (&n % big::p2(64)).to_u64().unwrap();
                ((n >> 64usize).to_u128().unwrap(), lo)
            }
            _ => {
                // n = q*d - delta: estimate one too large
                let q = gen::alpha_limb(&mut r).max(1);
                let n = BigUint::from(q) * BigUint::from(d2) - BigUint::from(gen::alpha_limb(&mut r) % 8 + 1);
                let lo = (&n % big::p2(64)).to_u64().unwrap();
                ((n >> 64usize).to_u128().unwrap(), lo)
            }
        };
        if u21 < d2 {
            m.case("div_3x2", 192, vec![Arg::N(u21), Arg::N(u128::from(u0)), Arg::N(d2)]);
        }
    }
    // ---- div (any lengths 1..=12 with padding), div_nxm, div_nxm_normalized, nx1, nx2
    let mut r = m.stream("c14.slices", 0);
    let reps = m.iters(6);
    for nl in 1..=12usize {
        for dl in 1..=12usize {
            for topbits in [1usize, 2, 31, 32, 33, 63, 64] {
                if !m.keep() {
                    continue;
                }
                for recipe in 0..8 {
                    for _ in 0..reps {
                        slices_case(m, &mut r, nl, dl, topbits, recipe);
                    }
                }
            }
        }
        if m.time_up() {
            break;
        }
    }
    if !m.is_light() {
        m.mark_exhaustive("every (numerator length, divisor length) combination in 1..=12 x 1..=12 for algorithms::div (contents sampled)");
    }
    let mut r = m.stream("c14.random", 0);
    for i in 0..m.iters(120_000) {
        if i % 512 == 0 && m.time_up() {
            break;
        }
        let nl = r.range(1, 12);
        let dl = r.range(1, 12);
        let topbits = if r.chance(1, 3) { 64 } else { r.range(1, 64) };
        let recipe = r.below(8);
        slices_case(m, &mut r, nl, dl, topbits, recipe);
    }
    // zero divisor must panic (documented)
    for dl in 1..=3 {
        m.case("div", 64, vec![au(&[1, 2]), au(&vec![0; dl])]);
    }
}

/// One family of slice-level cases from a (numerator length, divisor length,
/// divisor top-limb bits, recipe) tuple. `nl`/`dl` are the significant lengths;
/// extra zero padding is added at random for `div`.
fn slices_case(m: &mut Mon, r: &mut Rng, nl: usize, dl: usize, topbits: usize, recipe: usize) {
    let dv = divgen::divisor(r, dl, topbits);
    let bd = big::big(&dv);
    let bn = divgen::numerator(r, &bd, 64 * nl, recipe);
    let nv = pad(trimmed(&bn), if r.bool() { nl } else { 0 }.max(1));
    // generic entry point: random extra zero padding on both
    let npad = nv.len() + if r.chance(1, 3) { r.range(1, 3) } else { 0 };
    let dpad = dv.len() + if r.chance(1, 3) { r.range(1, 3) } else { 0 };
    m.case("div", 64 * nl, vec![au(&pad(nv.clone(), npad.min(14))), au(&pad(dv.clone(), dpad.min(14)))]);
    // un-normalised Knuth: both >= 3 limbs, numerator at least as long
    if dl >= 3 {
        let n = pad(nv.clone(), nl.max(dl));
        m.case("div_nxm", 64 * n.len(), vec![au(&n), au(&dv)]);
    }
    // normalised Knuth: divisor top bit set, >= 2 limbs, numerator top dl limbs < divisor
    if dl >= 2 && topbits == 64 {
        let total = nl.max(dl + 1);
        let mut n = pad(nv.clone(), total);
        n.truncate(total);
        let top = big::big(&n[total - dl..]);
        if top < bd {
            m.case("div_nxm_normalized", 64 * total, vec![au(&n), au(&dv)]);
        } else {
            // make room: one more zero limb on top
            n.push(0);
            m.case("div_nxm_normalized", 64 * (total + 1), vec![au(&n), au(&dv)]);
        }
        if r.chance(1, 8) {
            // equal lengths with numerator < divisor: quotient has zero limbs
            let small = big::limbs(&(&bn % &bd), dl);
            m.case("div_nxm_normalized", 64 * dl, vec![au(&small), au(&dv)]);
        }
    }
    // n x 1 and n x 2
    let ntrim = trimmed(&bn);
    if dl == 1 {
        if !ntrim.is_empty() {
            m.case("div_nx1", 64 * ntrim.len(), vec![au(&ntrim), Arg::N(u128::from(dv[0]))]);
        }
        if topbits == 64 {
            m.case("div_nx1_normalized", 64 * nv.len(), vec![au(&pad(nv.clone(), nl)), Arg::N(u128::from(dv[0]))]);
        }
    }
    if dl == 2 {
        let d2 = u128::join_hi(dv[1], dv[0]);
        if !ntrim.is_empty() {
            m.case("div_nx2", 64 * ntrim.len(), vec![au(&ntrim), Arg::N(d2)]);
        }
        if topbits == 64 {
            m.case("div_nx2_normalized", 64 * nv.len(), vec![au(&pad(nv.clone(), nl)), Arg::N(d2)]);
        }
    }
    let _ = BigUint::one();
}

// -------------------------------------------------------------------------- bulk reciprocal sweep

/// Is `v` = floor((2^192 - 1) / d) - 2^64 ?  <=>  X*d < 2^192 <= X*d + d  with X = 2^64 + v.
fn recip2_ok(dv: u128, v: u64) -> bool {
    let (d1, d0) = ((dv >> 64) as u64, dv as u64);
    // X*d = (2^64 + v) * d as four 64-bit limbs (little endian), plus overflow detection
    let p0 = u128::from(v) * u128::from(d0);
    let p1 = u128::from(v) * u128::from(d1);
    let l0 = p0 as u64;
    let t1 = (p0 >> 64) + u128::from(p1 as u64) + u128::from(d0); // + d << 64 contributes d0 here
    let l1 = t1 as u64;
    let t2 = (t1 >> 64) + (p1 >> 64) + u128::from(d1);
    let l2 = t2 as u64;
    let l3 = (t2 >> 64) as u64;
    if l3 != 0 {
        return false; // X*d >= 2^192
    }
    // X*d + d >= 2^192 ?
    let s0 = u128::from(l0) + u128::from(d0);
    let s1 = u128::from(l1) + u128::from(d1) + (s0 >> 64);
    let s2 = u128::from(l2) + (s1 >> 64);
    (s2 >> 64) != 0
}

/// Low-discrepancy + end-weighted sampling of every row of the reciprocal seed table; only
/// mismatches go through the monitored path. `per_row` samples per table row for this shard.
fn recip_sweep(m: &mut Mon, per_row: u64) {
    let (shard, nshards) = (m.cfg.shard, m.cfg.nshards.max(1));
    let mut r = m.stream("c14.sweep", shard as usize);
    let mut n = 0u64;
    const SPAN: u64 = 1 << 55;
    for row in 0..256u64 {
        let first = (256 + row) << 55;
        // golden-ratio stride, different offset per shard
        let stride = 0x9e37_79b9_7f4a_7c15u64 % SPAN | 1;
        let mut off = (r.u64() % SPAN).wrapping_add(shard.wrapping_mul(0x1234_5678_9abc_def1)) % SPAN;
        for k in 0..per_row {
            let inrow = match k % 8 {
                // distance 2^j (+- noise) from either end of the row: where a seed error bites first
                0 => SPAN - 1 - ((1u64 << (k / 8 % 55)) + (r.u64() >> 44)) % SPAN,
                1 => ((1u64 << (k / 8 % 55)) + (r.u64() >> 44)) % SPAN,
                2 => r.u64() % SPAN,
                _ => {
                    off = (off + stride) % SPAN;
                    off
                }
            };
            let dv = first | inrow;
            let want = (u128::MAX / u128::from(dv)) as u64; // = floor((2^128-1)/d) - 2^64 for d >= 2^63
            n += 1;
            if d::reciprocal(dv) != want || d::reciprocal_mg10(dv) != want {
                m.case_always("reciprocal", 64, vec![Arg::N(u128::from(dv))]);
            }
            if k % 4 == 0 {
                let lo = match k / 4 % 4 {
                    0 => 0,
                    1 => u64::MAX,
                    2 => gen::alpha_limb(&mut r),
                    _ => r.u64(),
                };
                let d2 = (u128::from(dv) << 64) | u128::from(lo);
                n += 1;
                if !recip2_ok(d2, d::reciprocal_2(d2)) {
                    m.case_always("reciprocal_2", 128, vec![Arg::N(d2)]);
                }
            }
        }
    }
    m.bump(n, n);
    m.note_add("reciprocal_sweep_evaluations", n);
    let _ = nshards;
}

fn main() {
    let mut m = Mon::new("C14", dispatch);
    m.use_hooks = true;
    if !m.replay_if_requested() {
        if let Some(n) = m.cfg.extra.get("recipsweep").cloned() {
            let per_row: u64 = n.parse().expect("harness: --recipsweep <samples per row>");
            recip_sweep(&mut m, per_row);
        } else {
            loop {
                workload(&mut m);
                if !m.another_light_pass() {
                    break;
                }
            }
        }
    }
    m.finish();
}
