//! C14 workload (under construction).
fn main() {}
