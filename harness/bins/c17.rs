//! C17 — decoders are total on untrusted input: no panic, no out-of-range value.
//!
//! One case = (decoder entry point, BITS, raw input [, fault parameters]).
//! Every reference decoder below is written from the format definition and
//! works on the raw input only; codec traits are never imported, every real call
//! is fully qualified.

use num_bigint::{BigInt, BigUint, Sign};
use ruint::{support::scale::CompactUint, Bits, Uint};
use std::str::FromStr;
use vmon::{big, gen, rng::Rng, Arg, Mon, Panic};

vmon::widths!(exec; 0, 1, 7, 8, 9, 16, 60, 63, 64, 65, 124, 127, 128, 129, 188, 250, 255, 256, 257, 384, 512);

// ---------------------------------------------------------------------------
// Reference verdicts
// ---------------------------------------------------------------------------

/// What the independent reference decoder says about an input.
#[derive(Clone, Debug, PartialEq)]
enum Ref {
    /// The input denotes this value (canonical limbs for the width).
    Val(Vec<u64>),
    /// The input must be rejected; the payload is the (narrow) class.
    Reject(&'static str),
    /// The property makes no statement about the value: only "no panic" and
    /// canonical form are checked.
    Any,
}

fn rv(v: &BigUint, bits: usize) -> Ref {
    if big::fits(v, bits) {
        Ref::Val(big::limbs(v, gen::nlimbs(bits)))
    } else {
        Ref::Reject("overrange")
    }
}

fn rv_be(b: &[u8], bits: usize) -> Ref {
    rv(&BigUint::from_bytes_be(b), bits)
}

fn rv_le(b: &[u8], bits: usize) -> Ref {
    rv(&BigUint::from_bytes_le(b), bits)
}

fn rv_u128(x: u128, bits: usize) -> Ref {
    rv(&BigUint::from(x), bits)
}

fn kind(sub: &str, k: &str) -> String {
    if sub.is_empty() {
        k.to_string()
    } else {
        format!("{sub}.{k}")
    }
}

/// Per-entry-point tallies of reference verdict classes and decoder outcomes
/// (reported under `notes.c17_outcomes`; evidence only, never decides).
#[derive(Default)]
struct OpTally {
    accepted: u64,
    rejected: u64,
    panicked: u64,
    classes: std::collections::BTreeMap<&'static str, u64>,
}

#[derive(Default)]
struct Tally {
    index: std::collections::HashMap<String, usize>,
    ops: Vec<(String, OpTally)>,
    cur: usize,
}

thread_local! {
    static TALLY: std::cell::RefCell<Tally> = std::cell::RefCell::new(Tally::default());
}

fn tally_enter(op: &str) {
    TALLY.with(|t| {
        let mut t = t.borrow_mut();
        let i = match t.index.get(op) {
            Some(&i) => i,
            None => {
                let i = t.ops.len();
                t.ops.push((op.to_string(), OpTally::default()));
                t.index.insert(op.to_string(), i);
                i
            }
        };
        t.cur = i;
    });
}

fn tally_record(r: &Ref, outcome: u8) {
    TALLY.with(|t| {
        let mut t = t.borrow_mut();
        if t.ops.is_empty() {
            return;
        }
        let cur = t.cur;
        let o = &mut t.ops[cur].1;
        match outcome {
            0 => o.accepted += 1,
            1 => o.rejected += 1,
            _ => o.panicked += 1,
        }
        let class = match r {
            Ref::Val(_) => "value",
            Ref::Any => "unjudged",
            Ref::Reject(c) => c,
        };
        *o.classes.entry(class).or_default() += 1;
    });
}

fn tally_report(m: &mut Mon) {
    let v = TALLY.with(|t| {
        let t = t.borrow();
        let mut map = serde_json::Map::new();
        for (name, o) in &t.ops {
            let classes: serde_json::Map<String, serde_json::Value> =
                o.classes.iter().map(|(k, v)| (k.to_string(), serde_json::json!(v))).collect();
            map.insert(
                name.clone(),
                serde_json::json!({"accepted": o.accepted, "rejected": o.rejected, "panicked": o.panicked, "reference": classes}),
            );
        }
        serde_json::Value::Object(map)
    });
    m.note("c17_outcomes", v);
}

/// Judge one real decoder outcome against the reference verdict.
fn judge<const B: usize, const L: usize, E: std::fmt::Debug>(
    m: &mut Mon,
    sub: &str,
    r: &Ref,
    out: Result<Result<Uint<B, L>, E>, Panic>,
) -> Option<Uint<B, L>> {
    match out {
        Err(p) => {
            tally_record(r, 2);
            m.unexpected_panic(&p);
            None
        }
        Ok(Err(e)) => {
            tally_record(r, 1);
            m.obs(|| format!("{sub} reference={r:?} decoder=Err({e:?})"));
            None
        }
        Ok(Ok(v)) => {
            tally_record(r, 0);
            m.obs(|| format!("{sub} reference={r:?} decoder=Ok({})", big::hex(v.as_limbs())));
            m.canonical(&v);
            match r {
                Ref::Val(e) => {
                    if v.as_limbs()[..] != e[..] {
                        m.fail(&kind(sub, "value"), &big::hex(e), &big::hex(v.as_limbs()));
                    }
                }
                Ref::Reject(class) => {
                    m.fail(
                        &kind(sub, &format!("accepts-{class}")),
                        &format!("Err (reference: {class})"),
                        &format!("Ok({})", big::hex(v.as_limbs())),
                    );
                }
                Ref::Any => {}
            }
            Some(v)
        }
    }
}

/// (iv): an accepted input must re-encode to exactly the consumed bytes.
fn reencode_check(m: &mut Mon, sub: &str, r: &Ref, consumed: &[u8], reenc: &[u8]) {
    // Only meaningful when the decoder was right to accept; otherwise the
    // accepts-* violation is already recorded.
    if matches!(r, Ref::Val(_)) && consumed != reenc {
        m.fail(&kind(sub, "non-canonical-accepted"), &hexs(reenc), &hexs(consumed));
    }
}

fn hexs(b: &[u8]) -> String {
    b.iter().map(|x| format!("{x:02x}")).collect()
}

// ---------------------------------------------------------------------------
// Reference decoders
// ---------------------------------------------------------------------------

fn floor_log2(x: u64) -> usize {
    63 - x.leading_zeros() as usize
}

/// `from_str_radix` grammar as documented: radix 2..=36 case-insensitive
/// 0-9a-z with `_` ignored; radix 37..=64 the base-64 alphabets (A-Z a-z 0-9
/// +- /,_) with `=`, CR, LF ignored.
fn ref_radix(s: &str, radix: u64, bits: usize) -> Ref {
    if !(2..=64).contains(&radix) {
        return Ref::Reject("invalid-radix");
    }
    let mut digits: Vec<u8> = Vec::with_capacity(s.len());
    for c in s.chars() {
        let d = if radix <= 36 {
            match c {
                '0'..='9' => c as u32 - '0' as u32,
                'a'..='z' => c as u32 - 'a' as u32 + 10,
                'A'..='Z' => c as u32 - 'A' as u32 + 10,
                '_' => continue,
                _ => return Ref::Reject("invalid-digit"),
            }
        } else {
            match c {
                'A'..='Z' => c as u32 - 'A' as u32,
                'a'..='z' => c as u32 - 'a' as u32 + 26,
                '0'..='9' => c as u32 - '0' as u32 + 52,
                '+' | '-' => 62,
                '/' | ',' | '_' => 63,
                '=' | '\r' | '\n' => continue,
                _ => return Ref::Reject("invalid-digit"),
            }
        };
        if u64::from(d) >= radix {
            return Ref::Reject("invalid-digit");
        }
        digits.push(d as u8);
    }
    let nz = digits.iter().position(|&d| d != 0).unwrap_or(digits.len());
    let sig = &digits[nz..];
    if sig.is_empty() {
        return Ref::Val(gen::zero(bits));
    }
    // sig has a non-zero leading digit: value >= radix^(len-1) >= 2^((len-1)*floor(log2 radix)).
    if (sig.len() - 1) * floor_log2(radix) > bits {
        return Ref::Reject("overrange");
    }
    let v = BigUint::from_radix_be(sig, radix as u32).expect("harness: reference radix conversion");
    rv(&v, bits)
}

/// `FromStr` grammar: `0x`/`0o`/`0b` prefixes (either case), decimal otherwise.
fn ref_from_str(s: &str, bits: usize) -> Ref {
    let (rest, radix) = match s.get(..2) {
        Some("0x" | "0X") => (&s[2..], 16),
        Some("0o" | "0O") => (&s[2..], 8),
        Some("0b" | "0B") => (&s[2..], 2),
        _ => (s, 10),
    };
    ref_radix(rest, radix, bits)
}

fn ref_json_value(v: &serde_json::Value, bits: usize) -> Ref {
    use serde_json::Value;
    match v {
        Value::String(s) => ref_from_str(s, bits),
        Value::Number(n) => {
            if let Some(x) = n.as_u64() {
                rv_u128(u128::from(x), bits)
            } else if n.as_i64().is_some() {
                Ref::Reject("negative")
            } else {
                // A `Value` holds a number beyond u64/i64 as an f64: that f64 is the decoder's input here, and a
                // non-negative integral f64 denotes exactly one integer.
                let f = n.as_f64().unwrap_or(f64::NAN);
                match exact_f64_integer(f) {
                    Some(x) => rv(&x, bits),
                    None => Ref::Reject("wrong-type"),
                }
            }
        }
        _ => Ref::Reject("wrong-type"),
    }
}

/// The integer a finite, non-negative, integral f64 denotes.
fn exact_f64_integer(f: f64) -> Option<BigUint> {
    if !f.is_finite() || f < 0.0 || f.fract() != 0.0 {
        return None;
    }
    let b = f.to_bits();
    let e = ((b >> 52) & 0x7ff) as i64;
    let frac = b & ((1u64 << 52) - 1);
    if e == 0 {
        return if frac == 0 { Some(BigUint::from(0u8)) } else { None };
    }
    let mant = BigUint::from(frac | (1u64 << 52));
    let sh = e - 1075;
    Some(if sh >= 0 { mant << (sh as usize) } else { mant >> ((-sh) as usize) })
}

/// `doc` (surrounded by JSON whitespace) as a single JSON number literal: `None` if it is not one; otherwise
/// the verdict for the exact rational it denotes (a non-negative integer, possibly written with a fraction
/// and/or exponent, must decode to exactly that integer or be rejected; anything else must be rejected).
fn ref_json_number_literal(doc: &[u8], bits: usize) -> Option<Ref> {
    let t = std::str::from_utf8(doc).ok()?.trim_matches(|c| c == ' ' || c == '\t' || c == '\n' || c == '\r');
    let b = t.as_bytes();
    let mut i = 0;
    let neg = b.first() == Some(&b'-');
    if neg {
        i += 1;
    }
    let int_start = i;
    while i < b.len() && b[i].is_ascii_digit() {
        i += 1;
    }
    let int_part = &t[int_start..i];
    if int_part.is_empty() || (int_part.len() > 1 && int_part.starts_with('0')) {
        return None;
    }
    let mut frac_part = "";
    if i < b.len() && b[i] == b'.' {
        let fs = i + 1;
        i = fs;
        while i < b.len() && b[i].is_ascii_digit() {
            i += 1;
        }
        if i == fs {
            return None;
        }
        frac_part = &t[fs..i];
    }
    let mut exp: i64 = 0;
    if i < b.len() && (b[i] == b'e' || b[i] == b'E') {
        i += 1;
        let mut eneg = false;
        if i < b.len() && (b[i] == b'+' || b[i] == b'-') {
            eneg = b[i] == b'-';
            i += 1;
        }
        let es = i;
        while i < b.len() && b[i].is_ascii_digit() {
            i += 1;
        }
        if i == es || i - es > 6 {
            return None; // not a literal, or an exponent too large to judge exactly: leave it to the tokenizer path
        }
        exp = t[es..i].parse::<i64>().ok()?;
        if eneg {
            exp = -exp;
        }
    }
    if i != b.len() {
        return None;
    }
    // value = digits * 10^(exp - frac_len)
    let digits = BigUint::parse_bytes(format!("{int_part}{frac_part}").as_bytes(), 10)?;
    let e10 = exp - frac_part.len() as i64;
    let value = if big::is_zero(&digits) {
        Some(BigUint::from(0u8))
    } else if e10 >= 0 {
        if e10 > 5000 {
            return Some(Ref::Reject("overrange"));
        }
        Some(digits * BigUint::from(10u8).pow(e10 as u32))
    } else {
        if -e10 > 100_000 {
            return None;
        }
        let d = BigUint::from(10u8).pow((-e10) as u32);
        if big::is_zero(&(&digits % &d)) { Some(digits / d) } else { None }
    };
    Some(match value {
        None => Ref::Reject("wrong-type"),
        Some(v) if neg && !big::is_zero(&v) => Ref::Reject("negative"),
        Some(v) => rv(&v, bits),
    })
}

/// JSON document: tokenised by serde_json's own `Value` parser (third party,
/// not under test); the string/number payload is judged by our grammar.
fn ref_json_doc(doc: &[u8], bits: usize) -> Ref {
    // A document that is one bare number literal denotes that number exactly, however the JSON library chooses
    // to hand it to the visitor (serde_json rounds integers beyond u64 to an f64 first).
    if let Some(r) = ref_json_number_literal(doc, bits) {
        return r;
    }
    match serde_json::from_slice::<serde_json::Value>(doc) {
        Ok(v) => ref_json_value(&v, bits),
        Err(_) => Ref::Reject("malformed-json"),
    }
}

struct RlpItem<'a> {
    list: bool,
    payload: &'a [u8],
    total: usize,
}

fn rlp_item(b: &[u8]) -> Result<RlpItem<'_>, &'static str> {
    let Some(&t) = b.first() else {
        return Err("truncated");
    };
    let (list, hdr, len): (bool, usize, u64) = match t {
        0..=0x7f => return Ok(RlpItem { list: false, payload: &b[..1], total: 1 }),
        0x80..=0xb7 => (false, 1, u64::from(t - 0x80)),
        0xc0..=0xf7 => (true, 1, u64::from(t - 0xc0)),
        _ => {
            let ll = usize::from(t - if t < 0xc0 { 0xb7 } else { 0xf7 });
            if b.len() < 1 + ll {
                return Err("truncated");
            }
            let mut len = 0u64;
            for &x in &b[1..1 + ll] {
                len = (len << 8) | u64::from(x);
            }
            (t >= 0xc0, 1 + ll, len)
        }
    };
    if ((b.len() - hdr) as u64) < len {
        return Err("truncated");
    }
    let len = len as usize;
    Ok(RlpItem { list, payload: &b[hdr..hdr + len], total: hdr + len })
}

/// RLP integer (big-endian string payload). `fixed` = Some(BYTES) for `Bits`.
fn ref_rlp(b: &[u8], bits: usize, fixed: Option<usize>) -> (Ref, usize) {
    match rlp_item(b) {
        Err(c) => (Ref::Reject(c), 0),
        Ok(it) => {
            if it.list {
                (Ref::Reject("list"), it.total)
            } else if fixed.is_some_and(|n| n != it.payload.len()) {
                (Ref::Reject("length-mismatch"), it.total)
            } else {
                (rv_be(it.payload, bits), it.total)
            }
        }
    }
}

/// DER INTEGER contents octets (two's complement big endian).
fn ref_der_content(c: &[u8], bits: usize) -> Ref {
    match c.first() {
        None => Ref::Reject("empty-content"),
        Some(&f) if f >= 0x80 => Ref::Reject("negative"),
        _ => rv_be(c, bits),
    }
}

/// Whole-slice DER INTEGER (`from_der`).
fn ref_der(b: &[u8], bits: usize) -> Ref {
    let n = b.len();
    if n == 0 {
        return Ref::Reject("truncated");
    }
    if b[0] != 0x02 {
        return Ref::Reject("wrong-tag");
    }
    if n == 1 {
        return Ref::Reject("truncated");
    }
    let l0 = b[1];
    let (hdr, len): (usize, u128) = if l0 < 0x80 {
        (2, u128::from(l0))
    } else if l0 == 0x80 {
        return Ref::Reject("indefinite-length");
    } else {
        let k = usize::from(l0 & 0x7f);
        if n < 2 + k {
            return Ref::Reject("truncated");
        }
        let mut len = 0u128;
        for &x in &b[2..2 + k] {
            len = len.saturating_mul(256).saturating_add(u128::from(x));
        }
        (2 + k, len)
    };
    let rest = (n - hdr) as u128;
    if len > rest {
        return Ref::Reject("truncated");
    }
    if len < rest {
        return Ref::Reject("trailing");
    }
    ref_der_content(&b[hdr..], bits)
}

/// SCALE compact integer: (little-endian value bytes, consumed bytes).
fn scale_compact_parse(b: &[u8]) -> Result<(Vec<u8>, usize), &'static str> {
    let Some(&f) = b.first() else {
        return Err("truncated");
    };
    match f & 3 {
        0 => Ok((vec![f >> 2], 1)),
        1 => {
            if b.len() < 2 {
                return Err("truncated");
            }
            let x = u16::from_le_bytes([b[0], b[1]]) >> 2;
            Ok((x.to_le_bytes().to_vec(), 2))
        }
        2 => {
            if b.len() < 4 {
                return Err("truncated");
            }
            let x = u32::from_le_bytes([b[0], b[1], b[2], b[3]]) >> 2;
            Ok((x.to_le_bytes().to_vec(), 4))
        }
        _ => {
            let n = usize::from(f >> 2) + 4;
            if b.len() < 1 + n {
                return Err("truncated");
            }
            Ok((b[1..1 + n].to_vec(), 1 + n))
        }
    }
}

fn ref_scale_compact(b: &[u8], bits: usize) -> (Ref, usize) {
    match scale_compact_parse(b) {
        Err(c) => (Ref::Reject(c), 0),
        Ok((le, used)) => (rv_le(&le, bits), used),
    }
}

/// ruint's fixed SCALE form: compact length prefix + little-endian bytes.
fn ref_scale_fixed(b: &[u8], bits: usize) -> (Ref, usize) {
    match scale_compact_parse(b) {
        Err(c) => (Ref::Reject(c), 0),
        Ok((le, used)) => {
            let mut len = 0u128;
            for (i, &x) in le.iter().enumerate() {
                if i < 16 {
                    len |= u128::from(x) << (8 * i);
                } else if x != 0 {
                    len = u128::MAX;
                }
            }
            if len > (b.len() - used) as u128 {
                return (Ref::Reject("truncated"), 0);
            }
            let len = len as usize;
            (rv_le(&b[used..used + len], bits), used + len)
        }
    }
}

/// bincode (fixint): u64-LE length, then exactly BYTES big-endian bytes.
fn ref_bincode(b: &[u8], bits: usize) -> Ref {
    if b.len() < 8 {
        return Ref::Reject("truncated");
    }
    let len = u64::from_le_bytes(b[..8].try_into().unwrap());
    if len > (b.len() - 8) as u64 {
        return Ref::Reject("truncated");
    }
    if len != ((bits + 7) / 8) as u64 {
        return Ref::Reject("length-mismatch");
    }
    rv_be(&b[8..8 + len as usize], bits)
}

/// Fixed-width little-endian (SSZ: whole slice; borsh: prefix of the slice).
fn ref_le_fixed(b: &[u8], bits: usize, exact: bool) -> Ref {
    let by = (bits + 7) / 8;
    if b.len() < by {
        return Ref::Reject("truncated");
    }
    if exact && b.len() > by {
        return Ref::Reject("length-mismatch");
    }
    rv_le(&b[..by], bits)
}

fn ref_numeric(raw: &[u8], bits: usize) -> Ref {
    if raw.len() < 8 {
        return Ref::Reject("truncated");
    }
    let nd = i16::from_be_bytes([raw[0], raw[1]]);
    let w = i32::from(i16::from_be_bytes([raw[2], raw[3]]));
    let sign = u16::from_be_bytes([raw[4], raw[5]]);
    let body = &raw[8..];
    if nd < 0 {
        return Ref::Reject("negative-ndigits");
    }
    if body.len() != 2 * nd as usize {
        return Ref::Reject("length-mismatch");
    }
    let ds: Vec<i16> = body.chunks_exact(2).map(|c| i16::from_be_bytes([c[0], c[1]])).collect();
    if ds.iter().any(|d| !(0..10000).contains(d)) {
        return Ref::Reject("invalid-digit");
    }
    let first = ds.iter().position(|&d| d != 0);
    match sign {
        0x0000 => {}
        0x4000 => {
            return if first.is_some() { Ref::Reject("negative") } else { Ref::Any };
        }
        _ => return Ref::Reject("not-a-number"),
    }
    let Some(first) = first else {
        return Ref::Val(gen::zero(bits));
    };
    let last = ds.iter().rposition(|&d| d != 0).unwrap();
    if w - (last as i32) < 0 {
        return Ref::Reject("fraction");
    }
    // value >= 10000^(w-first) >= 2^(13 (w-first))
    if (w - first as i32) as usize * 13 > bits + 13 {
        return Ref::Reject("overrange");
    }
    let mut v = BigUint::default();
    for i in 0..=(w as usize) {
        v = v * 10000u32 + BigUint::from(ds.get(i).copied().unwrap_or(0) as u32);
    }
    rv(&v, bits)
}

fn ref_pg(name: &str, raw: &[u8], bits: usize) -> Ref {
    fn fixed(raw: &[u8], n: usize) -> Option<Ref> {
        if raw.len() < n {
            Some(Ref::Reject("truncated"))
        } else if raw.len() > n {
            Some(Ref::Reject("length-mismatch"))
        } else {
            None
        }
    }
    fn signed(x: i64, bits: usize) -> Ref {
        if x < 0 {
            Ref::Reject("negative")
        } else {
            rv_u128(x as u128, bits)
        }
    }
    match name {
        "BOOL" => fixed(raw, 1).unwrap_or_else(|| match raw[0] {
            0 | 1 => rv_u128(u128::from(raw[0]), bits),
            _ => Ref::Any,
        }),
        "INT2" => fixed(raw, 2).unwrap_or_else(|| signed(i64::from(i16::from_be_bytes(raw.try_into().unwrap())), bits)),
        "INT4" => fixed(raw, 4).unwrap_or_else(|| signed(i64::from(i32::from_be_bytes(raw.try_into().unwrap())), bits)),
        "INT8" => fixed(raw, 8).unwrap_or_else(|| signed(i64::from_be_bytes(raw.try_into().unwrap()), bits)),
        "OID" => fixed(raw, 4).unwrap_or_else(|| rv_u128(u128::from(u32::from_be_bytes(raw.try_into().unwrap())), bits)),
        "FLOAT4" => fixed(raw, 4).unwrap_or(Ref::Any),
        "FLOAT8" => fixed(raw, 8).unwrap_or(Ref::Any),
        "MONEY" => fixed(raw, 8).unwrap_or_else(|| {
            let x = i64::from_be_bytes(raw.try_into().unwrap());
            if x % 100 != 0 {
                Ref::Any
            } else {
                signed(x / 100, bits)
            }
        }),
        "BYTEA" => rv_be(raw, bits),
        "BIT" | "VARBIT" => {
            if raw.len() < 4 {
                return Ref::Reject("truncated");
            }
            let n = i32::from_be_bytes(raw[..4].try_into().unwrap());
            if n < 0 {
                return Ref::Reject("negative-bit-count");
            }
            let n = n as usize;
            let body = &raw[4..];
            if body.len() != (n + 7) / 8 {
                return Ref::Reject("length-mismatch");
            }
            rv(&(BigUint::from_bytes_be(body) >> (8 * body.len() - n)), bits)
        }
        "TEXT" | "VARCHAR" | "CHAR" => match std::str::from_utf8(raw) {
            Err(_) => Ref::Reject("invalid-utf8"),
            Ok(s) => ref_from_str(s, bits),
        },
        "JSON" | "JSONB" => {
            let raw = if name == "JSONB" {
                match raw.first() {
                    None => return Ref::Reject("truncated"),
                    Some(1) => &raw[1..],
                    Some(_) => return Ref::Reject("jsonb-version"),
                }
            } else {
                raw
            };
            match std::str::from_utf8(raw) {
                Err(_) => Ref::Reject("invalid-utf8"),
                Ok(s) => {
                    // A JSON string whose content is a FromStr literal, or the
                    // bare literal (DESIGN appendix: quotes + FromStr grammar).
                    let inner = if s.len() >= 2 && s.starts_with('"') && s.ends_with('"') {
                        &s[1..s.len() - 1]
                    } else {
                        s
                    };
                    ref_from_str(inner, bits)
                }
            }
        }
        "NUMERIC" => ref_numeric(raw, bits),
        _ => Ref::Reject("unsupported-type"),
    }
}

fn pg_type(name: &str) -> postgres_types::Type {
    use postgres_types::Type;
    match name {
        "BOOL" => Type::BOOL,
        "CHAR" => Type::CHAR,
        "INT2" => Type::INT2,
        "INT4" => Type::INT4,
        "INT8" => Type::INT8,
        "OID" => Type::OID,
        "FLOAT4" => Type::FLOAT4,
        "FLOAT8" => Type::FLOAT8,
        "MONEY" => Type::MONEY,
        "NUMERIC" => Type::NUMERIC,
        "BYTEA" => Type::BYTEA,
        "TEXT" => Type::TEXT,
        "VARCHAR" => Type::VARCHAR,
        "JSON" => Type::JSON,
        "JSONB" => Type::JSONB,
        "BIT" => Type::BIT,
        "VARBIT" => Type::VARBIT,
        "TIMESTAMP" => Type::TIMESTAMP,
        "UUID" => Type::UUID,
        "INT4_ARRAY" => Type::INT4_ARRAY,
        _ => panic!("harness: unknown postgres type {name}"),
    }
}

// ---------------------------------------------------------------------------
// Reference encoders (used to build inputs and for the re-encode check)
// ---------------------------------------------------------------------------

fn strip0(b: &[u8]) -> &[u8] {
    let z = b.iter().position(|&x| x != 0).unwrap_or(b.len());
    &b[z..]
}

fn pad_be(b: &[u8], n: usize) -> Vec<u8> {
    let mut v = vec![0u8; n.saturating_sub(b.len())];
    v.extend_from_slice(b);
    v
}

/// Minimal big-endian bytes of a limb vector (empty for zero).
fn be_min(limbs: &[u64]) -> Vec<u8> {
    let mut v = Vec::with_capacity(limbs.len() * 8);
    for l in limbs.iter().rev() {
        v.extend_from_slice(&l.to_be_bytes());
    }
    strip0(&v).to_vec()
}

fn cat(parts: &[&[u8]]) -> Vec<u8> {
    parts.concat()
}

fn be_len(n: usize) -> Vec<u8> {
    let b = (n as u64).to_be_bytes();
    let s = strip0(&b);
    if s.is_empty() {
        vec![0]
    } else {
        s.to_vec()
    }
}

/// RLP header + payload, never collapsing a single byte.
fn rlp_string(p: &[u8], base: u8) -> Vec<u8> {
    if p.len() < 56 {
        cat(&[&[base + p.len() as u8], p])
    } else {
        let l = be_len(p.len());
        cat(&[&[base + 0x37 + l.len() as u8], &l, p])
    }
}

/// Canonical RLP encoding of the integer with big-endian magnitude `mag`.
fn enc_rlp(mag: &[u8]) -> Vec<u8> {
    let p = strip0(mag);
    if p.len() == 1 && p[0] < 0x80 {
        vec![p[0]]
    } else {
        rlp_string(p, 0x80)
    }
}

fn der_len(n: usize) -> Vec<u8> {
    if n < 0x80 {
        vec![n as u8]
    } else {
        let l = be_len(n);
        cat(&[&[0x80 | l.len() as u8], &l])
    }
}

fn der_content(mag: &[u8]) -> Vec<u8> {
    let p = strip0(mag);
    if p.first().copied().unwrap_or(0x80) >= 0x80 {
        cat(&[&[0], p])
    } else {
        p.to_vec()
    }
}

fn enc_der(mag: &[u8]) -> Vec<u8> {
    let c = der_content(mag);
    cat(&[&[0x02], &der_len(c.len()), &c])
}

/// Canonical SCALE compact encoding of the integer with BE magnitude `mag`
/// (None above 67 bytes).
fn enc_scale_compact(mag: &[u8]) -> Option<Vec<u8>> {
    let p = strip0(mag);
    let bitlen = if p.is_empty() { 0 } else { 8 * p.len() - p[0].leading_zeros() as usize };
    let mut le: Vec<u8> = p.iter().rev().copied().collect();
    if bitlen <= 30 {
        le.resize(4, 0);
        let x = u32::from_le_bytes([le[0], le[1], le[2], le[3]]);
        Some(if bitlen <= 6 {
            vec![(x as u8) << 2]
        } else if bitlen <= 14 {
            (((x as u16) << 2) | 1).to_le_bytes().to_vec()
        } else {
            ((x << 2) | 2).to_le_bytes().to_vec()
        })
    } else if le.len() <= 67 {
        Some(cat(&[&[(((le.len() - 4) as u8) << 2) | 3], &le]))
    } else {
        None
    }
}

fn enc_scale_fixed(le_payload: &[u8]) -> Vec<u8> {
    let l = enc_scale_compact(&be_len(le_payload.len())).unwrap();
    cat(&[&l, le_payload])
}

fn enc_bincode(payload: &[u8]) -> Vec<u8> {
    cat(&[&(payload.len() as u64).to_le_bytes(), payload])
}

fn rev(b: &[u8]) -> Vec<u8> {
    b.iter().rev().copied().collect()
}

fn enc_varbit(n: i32, body: &[u8]) -> Vec<u8> {
    cat(&[&n.to_be_bytes(), body])
}

fn numeric_raw(nd: i16, w: i16, sign: u16, dscale: u16, digits: &[i16]) -> Vec<u8> {
    let mut v = vec![];
    v.extend_from_slice(&nd.to_be_bytes());
    v.extend_from_slice(&w.to_be_bytes());
    v.extend_from_slice(&sign.to_be_bytes());
    v.extend_from_slice(&dscale.to_be_bytes());
    for d in digits {
        v.extend_from_slice(&d.to_be_bytes());
    }
    v
}

/// Base-10000 digits (big endian, trailing zeros trimmed) and weight.
fn numeric_digits(v: &BigUint) -> (Vec<i16>, i16) {
    // BigUint::to_radix_be only supports radix <= 256; do it by hand.
    let mut ds: Vec<i16> = vec![];
    let mut x = v.clone();
    let base = BigUint::from(10000u32);
    while x != BigUint::default() {
        let d = (&x % &base).to_u32_digits().first().copied().unwrap_or(0);
        ds.push(d as i16);
        x /= &base;
    }
    ds.reverse();
    let w = ds.len().saturating_sub(1) as i16;
    while ds.last() == Some(&0) {
        ds.pop();
    }
    (ds, w)
}

// ---------------------------------------------------------------------------
// Fault-injecting readers
// ---------------------------------------------------------------------------

const F_ONE: u128 = 1; // io: one byte per read call | SCALE: remaining_len unknown
const F_INTR: u128 = 2; // io: every other call returns Interrupted | SCALE: remaining_len fails
const F_ERR: u128 = 4; // the fault is an error instead of end-of-input
const F_FAULT: u128 = 8; // input ends / fails at offset k

fn effective(data: &[u8], k: usize, flags: u128) -> &[u8] {
    if flags & F_FAULT != 0 {
        &data[..k.min(data.len())]
    } else {
        data
    }
}

struct FaultReader<'a> {
    data: &'a [u8], // already cut at the fault offset
    pos: usize,
    flags: u128,
    tick: bool,
}

impl std::io::Read for FaultReader<'_> {
    fn read(&mut self, buf: &mut [u8]) -> std::io::Result<usize> {
        if buf.is_empty() {
            return Ok(0);
        }
        if self.flags & F_INTR != 0 {
            self.tick = !self.tick;
            if self.tick {
                return Err(std::io::Error::new(std::io::ErrorKind::Interrupted, "interrupted"));
            }
        }
        if self.pos >= self.data.len() {
            return if self.flags & F_FAULT != 0 && self.flags & F_ERR != 0 {
                Err(std::io::Error::new(std::io::ErrorKind::Other, "injected fault"))
            } else {
                Ok(0)
            };
        }
        let mut n = buf.len().min(self.data.len() - self.pos);
        if self.flags & F_ONE != 0 {
            n = 1;
        }
        buf[..n].copy_from_slice(&self.data[self.pos..self.pos + n]);
        self.pos += n;
        Ok(n)
    }
}

struct FaultInput<'a> {
    data: &'a [u8], // already cut at the fault offset
    pos: usize,
    flags: u128,
}

impl parity_scale_codec::Input for FaultInput<'_> {
    fn remaining_len(&mut self) -> Result<Option<usize>, parity_scale_codec::Error> {
        if self.flags & F_INTR != 0 {
            Err("injected remaining_len fault".into())
        } else if self.flags & F_ONE != 0 {
            Ok(None)
        } else {
            Ok(Some(self.data.len() - self.pos))
        }
    }

    fn read(&mut self, into: &mut [u8]) -> Result<(), parity_scale_codec::Error> {
        if into.len() > self.data.len() - self.pos {
            return Err("injected fault: not enough data".into());
        }
        into.copy_from_slice(&self.data[self.pos..self.pos + into.len()]);
        self.pos += into.len();
        Ok(())
    }
}

// ---------------------------------------------------------------------------
// The monitored calls
// ---------------------------------------------------------------------------

fn exec<const B: usize, const L: usize>(m: &mut Mon, op: &str, a: &[Arg]) {
    let by = (B + 7) / 8;
    if !m.is_light() {
        tally_enter(op); // evidence only; too slow under Miri
    }
    match op {
        // ---- byte-slice parsers -------------------------------------------------
        "try_from_be_slice" => {
            let b = a[0].b();
            m.nontrivial(b.len() >= 2);
            let r = rv_be(b, B);
            let out = m.call(|| Uint::<B, L>::try_from_be_slice(b).ok_or("None"));
            judge(m, "", &r, out);
            let out = m.call(|| Bits::<B, L>::try_from_be_slice(b).map(Bits::into_inner).ok_or("None"));
            judge(m, "bits", &r, out);
        }
        "try_from_le_slice" => {
            let b = a[0].b();
            m.nontrivial(b.len() >= 2);
            let r = rv_le(b, B);
            let out = m.call(|| Uint::<B, L>::try_from_le_slice(b).ok_or("None"));
            judge(m, "", &r, out);
            let out = m.call(|| Bits::<B, L>::try_from_le_slice(b).map(Bits::into_inner).ok_or("None"));
            judge(m, "bits", &r, out);
        }
        // ---- text parsers -------------------------------------------------------
        "from_str" => {
            let s = a[0].s();
            m.nontrivial(s.chars().count() >= 2);
            let r = ref_from_str(s, B);
            let out = m.call(|| Uint::<B, L>::from_str(s));
            judge(m, "", &r, out);
            let out = m.call(|| Bits::<B, L>::from_str(s).map(Bits::into_inner));
            judge(m, "bits", &r, out);
        }
        "from_str_radix" => {
            let s = a[0].s();
            let radix = a[1].n() as u64;
            m.nontrivial(s.chars().count() >= 2);
            let r = ref_radix(s, radix, B);
            let out = m.call(|| Uint::<B, L>::from_str_radix(s, radix));
            judge(m, "", &r, out);
        }
        "from_base_be" | "from_base_le" => {
            let digits = a[0].u();
            let base = a[1].n() as u64;
            m.nontrivial(digits.len() >= 2);
            let r = if base < 2 {
                Ref::Reject("invalid-base")
            } else if digits.iter().any(|&d| d >= base) {
                Ref::Reject("invalid-digit")
            } else {
                let mut v = BigUint::default();
                let it: Box<dyn Iterator<Item = &u64>> =
                    if op == "from_base_be" { Box::new(digits.iter()) } else { Box::new(digits.iter().rev()) };
                let mut over = false;
                for &d in it {
                    v = v * base + d;
                    if v.bits() as usize > B {
                        over = true;
                        break;
                    }
                }
                if over {
                    Ref::Reject("overrange")
                } else {
                    rv(&v, B)
                }
            };
            let out = if op == "from_base_be" {
                m.call(|| Uint::<B, L>::from_base_be(base, digits.iter().copied()))
            } else {
                m.call(|| Uint::<B, L>::from_base_le(base, digits.iter().copied()))
            };
            judge(m, "", &r, out);
        }
        // ---- serde, human readable ---------------------------------------------
        "serde_json.str" => {
            let s = a[0].s();
            m.nontrivial(s.chars().count() >= 2);
            let r = ref_json_doc(s.as_bytes(), B);
            let out = m.call(|| serde_json::from_str::<Uint<B, L>>(s));
            judge(m, "", &r, out);
            let out = m.call(|| serde_json::from_str::<Bits<B, L>>(s).map(Bits::into_inner));
            judge(m, "bits", &r, out);
        }
        "serde_json.slice" => {
            let b = a[0].b();
            m.nontrivial(b.len() >= 2);
            let r = ref_json_doc(b, B);
            let out = m.call(|| serde_json::from_slice::<Uint<B, L>>(b));
            judge(m, "", &r, out);
        }
        "serde_json.value" => {
            let s = a[0].s();
            // The document is turned into a `Value` by serde_json; ruint's
            // visitor then decodes the `Value`.
            let Ok(val) = serde_json::from_str::<serde_json::Value>(s) else {
                m.nontrivial(false);
                return;
            };
            m.nontrivial(s.chars().count() >= 2);
            let r = ref_json_value(&val, B);
            let out = m.call(|| serde_json::from_value::<Uint<B, L>>(val));
            judge(m, "", &r, out);
        }
        "serde.str" => {
            use serde::de::IntoDeserializer;
            let s = a[0].s();
            m.nontrivial(s.chars().count() >= 2);
            let r = ref_from_str(s, B);
            let out = m.call(|| {
                let d: serde::de::value::StrDeserializer<'_, serde::de::value::Error> = s.into_deserializer();
                <Uint<B, L> as serde::Deserialize>::deserialize(d)
            });
            judge(m, "", &r, out);
        }
        "serde.u64" => {
            use serde::de::IntoDeserializer;
            let x = a[0].n() as u64;
            m.nontrivial(x >= 2);
            let r = rv_u128(u128::from(x), B);
            let out = m.call(|| {
                let d: serde::de::value::U64Deserializer<serde::de::value::Error> = x.into_deserializer();
                <Uint<B, L> as serde::Deserialize>::deserialize(d)
            });
            judge(m, "", &r, out);
        }
        "serde.u128" => {
            use serde::de::IntoDeserializer;
            let x = a[0].n();
            m.nontrivial(x >= 2);
            let r = rv_u128(x, B);
            let out = m.call(|| {
                let d: serde::de::value::U128Deserializer<serde::de::value::Error> = x.into_deserializer();
                <Uint<B, L> as serde::Deserialize>::deserialize(d)
            });
            judge(m, "", &r, out);
        }
        // ---- serde, binary ------------------------------------------------------
        "bincode" => {
            let b = a[0].b();
            m.nontrivial(b.len() >= 2);
            let r = ref_bincode(b, B);
            let out = m.call(|| bincode::deserialize::<Uint<B, L>>(b));
            judge(m, "", &r, out);
        }
        "bincode.bits" => {
            let b = a[0].b();
            m.nontrivial(b.len() >= 2);
            let r = ref_bincode(b, B);
            let out = m.call(|| bincode::deserialize::<Bits<B, L>>(b).map(Bits::into_inner));
            judge(m, "", &r, out);
        }
        "bincode.reader" => {
            let (k, flags) = (a[1].us(), a[2].n());
            let eff = effective(a[0].b(), k, flags);
            m.nontrivial(eff.len() >= 2);
            if eff.len() >= 8 && u64::from_le_bytes(eff[..8].try_into().unwrap()) > 1 << 20 {
                // bincode's reader path allocates the declared length up front;
                // that is bincode's behaviour, not ruint's, and is not exercised.
                m.nontrivial(false);
                m.note_add("bincode_reader_skipped_huge_length", 1);
                return;
            }
            let r = ref_bincode(eff, B);
            let out = m.call(|| {
                let rd = FaultReader { data: eff, pos: 0, flags, tick: false };
                bincode::deserialize_from::<_, Uint<B, L>>(rd)
            });
            judge(m, "", &r, out);
        }
        // ---- RLP ----------------------------------------------------------------
        "rlp" => {
            let b = a[0].b();
            m.nontrivial(b.len() >= 2);
            let (r, _) = ref_rlp(b, B, None);
            let out = m.call(|| rlp::decode::<Uint<B, L>>(b));
            judge(m, "", &r, out);
        }
        "rlp.bits" => {
            let b = a[0].b();
            m.nontrivial(b.len() >= 2);
            let (r, _) = ref_rlp(b, B, Some(by));
            let out = m.call(|| rlp::decode::<Bits<B, L>>(b).map(Bits::into_inner));
            judge(m, "", &r, out);
        }
        "alloy_rlp" | "fastrlp03" | "fastrlp04" => {
            let b = a[0].b();
            m.nontrivial(b.len() >= 2);
            let (r, _) = ref_rlp(b, B, None);
            let out = m.call(|| {
                let mut buf = b;
                let v = match op {
                    "alloy_rlp" => <Uint<B, L> as alloy_rlp::Decodable>::decode(&mut buf).map_err(|e| format!("{e:?}")),
                    "fastrlp03" => <Uint<B, L> as fastrlp_03::Decodable>::decode(&mut buf).map_err(|e| format!("{e:?}")),
                    _ => <Uint<B, L> as fastrlp_04::Decodable>::decode(&mut buf).map_err(|e| format!("{e:?}")),
                };
                v.map(|v| (v, b.len() - buf.len()))
            });
            let (out, used) = split_used(out);
            if let Some(v) = judge(m, "", &r, out) {
                reencode_check(m, "", &r, &b[..used.min(b.len())], &enc_rlp(&be_min(v.as_limbs())));
            }
        }
        // ---- SCALE --------------------------------------------------------------
        "scale.fixed" | "scale.compact" => {
            let b = a[0].b();
            m.nontrivial(b.len() >= 2);
            let (r, want) = if op == "scale.fixed" { ref_scale_fixed(b, B) } else { ref_scale_compact(b, B) };
            let out = m.call(|| {
                let mut buf = b;
                let v = if op == "scale.fixed" {
                    <Uint<B, L> as parity_scale_codec::Decode>::decode(&mut buf)
                } else {
                    <CompactUint<B, L> as parity_scale_codec::Decode>::decode(&mut buf).map(|c| c.0)
                };
                v.map(|v| (v, b.len() - buf.len()))
            });
            let (out, used) = split_used(out);
            if judge(m, "", &r, out).is_some() && matches!(r, Ref::Val(_)) {
                m.eq("consumed-length", &used, &want);
            }
        }
        "scale.fixed.input" | "scale.compact.input" => {
            let (k, flags) = (a[1].us(), a[2].n());
            let eff = effective(a[0].b(), k, flags);
            m.nontrivial(eff.len() >= 2);
            let fixed = op == "scale.fixed.input";
            let (r, want) = if fixed { ref_scale_fixed(eff, B) } else { ref_scale_compact(eff, B) };
            let out = m.call(|| {
                let mut inp = FaultInput { data: eff, pos: 0, flags };
                let v = if fixed {
                    <Uint<B, L> as parity_scale_codec::Decode>::decode(&mut inp)
                } else {
                    <CompactUint<B, L> as parity_scale_codec::Decode>::decode(&mut inp).map(|c| c.0)
                };
                v.map(|v| (v, inp.pos))
            });
            let (out, used) = split_used(out);
            if judge(m, "", &r, out).is_some() && matches!(r, Ref::Val(_)) {
                m.eq("consumed-length", &used, &want);
            }
        }
        // ---- SSZ / borsh --------------------------------------------------------
        "ssz" => {
            let b = a[0].b();
            m.nontrivial(b.len() >= 2);
            let r = ref_le_fixed(b, B, true);
            let out = m.call(|| <Uint<B, L> as ssz::Decode>::from_ssz_bytes(b));
            judge(m, "", &r, out);
        }
        "borsh" => {
            let b = a[0].b();
            m.nontrivial(b.len() >= 2);
            let r = ref_le_fixed(b, B, false);
            let out = m.call(|| borsh::from_slice::<Uint<B, L>>(b));
            judge(m, "from_slice", &r, out);
            let out = m.call(|| <Uint<B, L> as borsh::BorshDeserialize>::try_from_slice(b));
            judge(m, "try_from_slice", &r, out);
            let out = m.call(|| {
                let mut buf = b;
                <Uint<B, L> as borsh::BorshDeserialize>::deserialize(&mut buf).map(|v| (v, b.len() - buf.len()))
            });
            let (out, used) = split_used(out);
            if judge(m, "deserialize", &r, out).is_some() && matches!(r, Ref::Val(_)) {
                m.eq("deserialize.consumed-length", &used, &by);
            }
        }
        "borsh.bits" => {
            let b = a[0].b();
            m.nontrivial(b.len() >= 2);
            let r = ref_le_fixed(b, B, false);
            let out = m.call(|| <Bits<B, L> as borsh::BorshDeserialize>::try_from_slice(b).map(Bits::into_inner));
            judge(m, "", &r, out);
        }
        "borsh.reader" => {
            let (k, flags) = (a[1].us(), a[2].n());
            let eff = effective(a[0].b(), k, flags);
            m.nontrivial(eff.len() >= 2);
            let r = ref_le_fixed(eff, B, false);
            let out = m.call(|| {
                let mut rd = FaultReader { data: eff, pos: 0, flags, tick: false };
                <Uint<B, L> as borsh::BorshDeserialize>::deserialize_reader(&mut rd).map(|v| (v, rd.pos))
            });
            let (out, used) = split_used(out);
            if judge(m, "", &r, out).is_some() && matches!(r, Ref::Val(_)) {
                m.eq("consumed-length", &used, &by);
            }
        }
        _ => exec2::<B, L>(m, op, a),
    }
}

/// Separate the "bytes consumed" side channel from a decoder outcome.
fn split_used<T, E>(out: Result<Result<(T, usize), E>, Panic>) -> (Result<Result<T, E>, Panic>, usize) {
    match out {
        Ok(Ok((v, n))) => (Ok(Ok(v)), n),
        Ok(Err(e)) => (Ok(Err(e)), 0),
        Err(p) => (Err(p), 0),
    }
}

fn exec2<const B: usize, const L: usize>(m: &mut Mon, op: &str, a: &[Arg]) {
    use der::asn1::{Any, AnyRef, Int, IntRef, Uint as DerUint, UintRef};
    match op {
        // ---- DER ----------------------------------------------------------------
        "der" => {
            let b = a[0].b();
            m.nontrivial(b.len() >= 2);
            let r = ref_der(b, B);
            let out = m.call(|| <Uint<B, L> as der::Decode>::from_der(b));
            if let Some(v) = judge(m, "", &r, out) {
                reencode_check(m, "", &r, b, &enc_der(&be_min(v.as_limbs())));
            }
        }
        "der.anyref" | "der.any" => {
            let c = a[0].b();
            let tagb = a[1].n() as u8;
            let Ok(tag) = der::Tag::try_from(tagb) else {
                m.nontrivial(false);
                return;
            };
            m.nontrivial(c.len() >= 2);
            let r = if tagb == 0x02 { ref_der_content(c, B) } else { Ref::Reject("wrong-tag") };
            if op == "der.anyref" {
                let Ok(any) = AnyRef::new(tag, c) else {
                    m.nontrivial(false);
                    return;
                };
                let out = m.call(|| <Uint<B, L> as TryFrom<AnyRef<'_>>>::try_from(any));
                if let Some(v) = judge(m, "", &r, out) {
                    reencode_check(m, "", &r, c, &der_content(&be_min(v.as_limbs())));
                }
            } else {
                let Ok(any) = Any::new(tag, c.to_vec()) else {
                    m.nontrivial(false);
                    return;
                };
                let out = m.call(|| <Uint<B, L> as TryFrom<&Any>>::try_from(&any));
                if let Some(v) = judge(m, "ref", &r, out) {
                    reencode_check(m, "ref", &r, c, &der_content(&be_min(v.as_limbs())));
                }
                let out = m.call(|| <Uint<B, L> as TryFrom<Any>>::try_from(any));
                judge(m, "owned", &r, out);
            }
        }
        "der.intref" | "der.int" => {
            // Signed INTEGER object: contents are two's complement big endian.
            let c = a[0].b();
            m.nontrivial(c.len() >= 2);
            let r = ref_der_content(c, B);
            if op == "der.intref" {
                let Ok(obj) = IntRef::new(c) else {
                    m.nontrivial(false);
                    return;
                };
                let held = obj.as_bytes().to_vec();
                let out = m.call(|| <Uint<B, L> as TryFrom<IntRef<'_>>>::try_from(obj));
                if let Some(v) = judge(m, "", &r, out) {
                    reencode_check(m, "", &r, &held, &der_content(&be_min(v.as_limbs())));
                }
            } else {
                let Ok(obj) = Int::new(c) else {
                    m.nontrivial(false);
                    return;
                };
                let held = obj.as_bytes().to_vec();
                let out = m.call(|| <Uint<B, L> as TryFrom<&Int>>::try_from(&obj));
                if let Some(v) = judge(m, "ref", &r, out) {
                    reencode_check(m, "ref", &r, &held, &der_content(&be_min(v.as_limbs())));
                }
                let out = m.call(|| <Uint<B, L> as TryFrom<Int>>::try_from(obj));
                judge(m, "owned", &r, out);
            }
        }
        "der.uintref" | "der.uint" => {
            // Unsigned INTEGER object: magnitude bytes, big endian.
            let c = a[0].b();
            m.nontrivial(c.len() >= 2);
            let r = if c.is_empty() { Ref::Reject("empty-content") } else { rv_be(c, B) };
            let minimal = |v: &Uint<B, L>| {
                let p = be_min(v.as_limbs());
                if p.is_empty() {
                    vec![0]
                } else {
                    p
                }
            };
            if op == "der.uintref" {
                let Ok(obj) = UintRef::new(c) else {
                    m.nontrivial(false);
                    return;
                };
                let held = obj.as_bytes().to_vec();
                let out = m.call(|| <Uint<B, L> as TryFrom<UintRef<'_>>>::try_from(obj));
                if let Some(v) = judge(m, "", &r, out) {
                    reencode_check(m, "", &r, &held, &minimal(&v));
                }
            } else {
                let Ok(obj) = DerUint::new(c) else {
                    m.nontrivial(false);
                    return;
                };
                let held = obj.as_bytes().to_vec();
                let out = m.call(|| <Uint<B, L> as TryFrom<&DerUint>>::try_from(&obj));
                if let Some(v) = judge(m, "ref", &r, out) {
                    reencode_check(m, "ref", &r, &held, &minimal(&v));
                }
                let out = m.call(|| <Uint<B, L> as TryFrom<DerUint>>::try_from(obj));
                judge(m, "owned", &r, out);
            }
        }
        // ---- num-bigint ---------------------------------------------------------
        "biguint.try_from" => {
            let le = a[0].b();
            m.nontrivial(le.len() >= 2);
            let r = rv_le(le, B);
            let x = BigUint::from_bytes_le(le);
            let out = m.call(|| <Uint<B, L> as TryFrom<&BigUint>>::try_from(&x));
            let out = payload_canonical(m, out);
            judge(m, "ref", &r, out);
            let out = m.call(|| <Uint<B, L> as TryFrom<BigUint>>::try_from(x));
            let out = payload_canonical(m, out);
            judge(m, "owned", &r, out);
        }
        "bigint.try_from" => {
            let le = a[0].b();
            let minus = a[1].n() == 1;
            m.nontrivial(le.len() >= 2);
            let mag = BigUint::from_bytes_le(le);
            let r = if minus && mag != BigUint::default() { Ref::Reject("negative") } else { rv(&mag, B) };
            let x = BigInt::from_bytes_le(if minus { Sign::Minus } else { Sign::Plus }, le);
            let out = m.call(|| <Uint<B, L> as TryFrom<&BigInt>>::try_from(&x));
            let out = payload_canonical(m, out);
            judge(m, "ref", &r, out);
            let out = m.call(|| <Uint<B, L> as TryFrom<BigInt>>::try_from(x));
            let out = payload_canonical(m, out);
            judge(m, "owned", &r, out);
        }
        // ---- postgres -----------------------------------------------------------
        _ if op.starts_with("postgres.") => {
            let name = &op["postgres.".len()..];
            let raw = a[0].b();
            m.nontrivial(raw.len() >= 2);
            let ty = pg_type(name);
            let r = ref_pg(name, raw, B);
            let out = m.call(|| <Uint<B, L> as postgres_types::FromSql>::from_sql(&ty, raw));
            judge(m, "", &r, out);
        }
        _ => panic!("harness: unknown op {op}"),
    }
}

/// The `Uint` carried inside a conversion error is a produced value too.
fn payload_canonical<const B: usize, const L: usize>(
    m: &mut Mon,
    out: Result<Result<Uint<B, L>, ruint::ToUintError<Uint<B, L>>>, Panic>,
) -> Result<Result<Uint<B, L>, ruint::ToUintError<Uint<B, L>>>, Panic> {
    if let Ok(Err(ruint::ToUintError::ValueTooLarge(_, n) | ruint::ToUintError::ValueNegative(_, n))) = &out {
        m.canonical(n);
    }
    out
}

// ---------------------------------------------------------------------------
// Input generation
// ---------------------------------------------------------------------------

fn ab(v: &[u8]) -> Arg {
    Arg::B(v.to_vec())
}

fn asr(s: &str) -> Arg {
    Arg::S(s.to_string())
}

fn p2(k: usize) -> BigUint {
    BigUint::from(1u8) << k
}

fn mag_bytes(v: &BigUint, by: usize) -> Vec<u8> {
    let b = v.to_bytes_be();
    pad_be(strip0(&b), by)
}

/// Boundary / hostile magnitudes (big endian, at least BYTES long), in range
/// and out of range, including every excess high bit above BITS.
fn key_mags(bits: usize) -> Vec<Vec<u8>> {
    let by = (bits + 7) / 8;
    let mut out: Vec<Vec<u8>> = vec![];
    let mut push = |v: BigUint| {
        let b = mag_bytes(&v, by);
        if !out.contains(&b) {
            out.push(b);
        }
    };
    for x in [0u64, 1, 2, 55, 56, 63, 64, 127, 128, 255, 256, 16383, 16384, 65535, (1 << 30) - 1, 1 << 30, u32::MAX as u64, 1 << 32, u64::MAX] {
        push(BigUint::from(x));
    }
    let one = BigUint::from(1u8);
    let max = p2(bits) - &one;
    push(max.clone());
    if bits > 0 {
        push(&max - &one);
        push(p2(bits - 1));
        push(p2(bits - 1) - &one);
    }
    push(p2(bits));
    push(p2(bits) + &one);
    for e in bits..8 * by {
        push(p2(e));
        push(p2(e) | &max);
        push(p2(e) | &one);
    }
    push(p2(8 * by) - &one);
    push(p2(8 * by));
    push(p2(8 * by + 8) - &one);
    push(p2(8 * by + 63));
    out
}

/// Field-independent single mutations of a valid encoding.
fn generic_muts(enc: &[u8], out: &mut Vec<Vec<u8>>) {
    out.push(enc.to_vec());
    for k in 0..enc.len() {
        out.push(enc[..k].to_vec());
    }
    for t in [&[0u8][..], &[0xff], &[0x80, 0x00], &[1, 2, 3]] {
        out.push(cat(&[enc, t]));
    }
    let n = enc.len();
    let mut pos: Vec<usize> = (0..n.min(10)).collect();
    for p in n.saturating_sub(2)..n {
        if !pos.contains(&p) {
            pos.push(p);
        }
    }
    for p in pos {
        for d in 0..3 {
            let mut e = enc.to_vec();
            e[p] = match d {
                0 => e[p].wrapping_add(1),
                1 => e[p].wrapping_sub(1),
                _ => e[p] ^ 0x80,
            };
            out.push(e);
        }
    }
}

#[derive(Clone, Copy, PartialEq, Debug)]
enum Fam {
    Rlp,
    Der,
    DerContent,
    ScaleFixed,
    ScaleCompact,
    Bincode,
    Le,
    Be,
    Varbit,
    Numeric,
}

const FAMILIES: &[Fam] = &[
    Fam::Rlp,
    Fam::Der,
    Fam::DerContent,
    Fam::ScaleFixed,
    Fam::ScaleCompact,
    Fam::Bincode,
    Fam::Le,
    Fam::Be,
    Fam::Varbit,
    Fam::Numeric,
];

fn fam_ops(f: Fam) -> &'static [&'static str] {
    match f {
        Fam::Rlp => &["rlp", "rlp.bits", "alloy_rlp", "fastrlp03", "fastrlp04"],
        Fam::Der => &["der"],
        Fam::DerContent => &["der.intref", "der.int", "der.uintref", "der.uint"],
        Fam::ScaleFixed => &["scale.fixed"],
        Fam::ScaleCompact => &["scale.compact"],
        Fam::Bincode => &["bincode", "bincode.bits"],
        Fam::Le => &["try_from_le_slice", "ssz", "borsh", "borsh.bits"],
        Fam::Be => &["try_from_be_slice", "postgres.BYTEA"],
        Fam::Varbit => &["postgres.BIT", "postgres.VARBIT"],
        Fam::Numeric => &["postgres.NUMERIC"],
    }
}

fn emit(m: &mut Mon, f: Fam, bits: usize, v: &[u8]) {
    for op in fam_ops(f) {
        m.case(op, bits, vec![ab(v)]);
    }
    if f == Fam::DerContent {
        m.case("der.anyref", bits, vec![ab(v), Arg::N(2)]);
        m.case("der.any", bits, vec![ab(v), Arg::N(2)]);
    }
}

fn varbit_canon(bits: usize, mag: &[u8]) -> Vec<u8> {
    let v = BigUint::from_bytes_be(mag);
    if big::fits(&v, bits) {
        let by = (bits + 7) / 8;
        let body = mag_bytes(&(v << (8 * by - bits)), by);
        enc_varbit(bits as i32, &body)
    } else {
        // over-range: a bit string as wide as the magnitude
        enc_varbit((8 * mag.len()) as i32, mag)
    }
}

fn numeric_canon(mag: &[u8]) -> Vec<u8> {
    let (ds, w) = numeric_digits(&BigUint::from_bytes_be(mag));
    numeric_raw(ds.len() as i16, w, 0, 0, &ds)
}

/// Canonical encoding of a magnitude (which may be out of range) in a family.
fn fam_canon(f: Fam, bits: usize, mag: &[u8]) -> Vec<u8> {
    let by = (bits + 7) / 8;
    let fixed = pad_be(strip0(mag), by);
    match f {
        Fam::Rlp => enc_rlp(mag),
        Fam::Der => enc_der(mag),
        Fam::DerContent => der_content(mag),
        Fam::ScaleFixed => enc_scale_fixed(&rev(&fixed)),
        Fam::ScaleCompact => enc_scale_compact(mag).unwrap_or_else(|| vec![0xff]),
        Fam::Bincode => enc_bincode(&fixed),
        Fam::Le => rev(&fixed),
        Fam::Be => fixed,
        Fam::Varbit => varbit_canon(bits, mag),
        Fam::Numeric => numeric_canon(mag),
    }
}

/// Valid encoding plus single-field mutations (`full`), or just the encoding.
fn fam_variants(f: Fam, bits: usize, mag: &[u8], full: bool) -> Vec<Vec<u8>> {
    let by = (bits + 7) / 8;
    let canon = fam_canon(f, bits, mag);
    let mut out = vec![];
    if !full {
        out.push(canon.clone());
        if !canon.is_empty() {
            out.push(canon[..canon.len() - 1].to_vec());
        }
        out.push(cat(&[&canon, &[0]]));
        return out;
    }
    generic_muts(&canon, &mut out);
    let p = strip0(mag);
    let fixed = pad_be(p, by);
    match f {
        Fam::Rlp => {
            // leading zeros inserted
            out.push(rlp_string(&cat(&[&[0], p]), 0x80));
            out.push(rlp_string(&fixed, 0x80));
            out.push(rlp_string(&cat(&[&[0u8; 8], &fixed]), 0x80));
            // single byte below 0x80 in string form; zero as 0x00 / 0x8100
            if p.len() == 1 && p[0] < 0x80 {
                out.push(vec![0x81, p[0]]);
            }
            if p.is_empty() {
                out.push(vec![0x00]);
                out.push(vec![0x81, 0x00]);
            }
            // long form for a short payload, length-of-length with leading zero
            let l = p.len().min(255) as u8;
            if p.len() < 56 {
                out.push(cat(&[&[0xb8, l], p]));
                out.push(cat(&[&[0xb9, 0, l], p]));
                out.push(cat(&[&[0xbf, 0, 0, 0, 0, 0, 0, 0, l], p]));
            } else {
                out.push(cat(&[&[0xb9, 0, l], p]));
                out.push(cat(&[&[0xb7], p]));
            }
            // list <-> string tag
            out.push(rlp_string(p, 0xc0));
            if p.len() < 56 {
                out.push(cat(&[&[0xf8, l], p]));
            }
            if canon.len() < 56 {
                out.push(cat(&[&[0xc0 + canon.len() as u8], &canon]));
            }
        }
        Fam::Der => {
            let c = der_content(mag);
            let body = &canon[1..];
            for t in [0x00u8, 0x01, 0x03, 0x04, 0x0a, 0x22, 0x30, 0x42, 0x82, 0xa2, 0x1f, 0xff] {
                out.push(cat(&[&[t], body]));
            }
            // sign byte removed / superfluous sign bytes
            if c.len() >= 2 && c[0] == 0 {
                out.push(cat(&[&[0x02], &der_len(c.len() - 1), &c[1..]]));
            }
            out.push(cat(&[&[0x02], &der_len(c.len() + 1), &[0], &c]));
            out.push(cat(&[&[0x02], &der_len(c.len() + 1), &[0xff], &c]));
            out.push(cat(&[&[0x02], &der_len(fixed.len() + 1), &[0], &fixed]));
            // indefinite length, non-minimal length octets, reserved 0xff
            out.push(cat(&[&[0x02, 0x80], &c, &[0, 0]]));
            out.push(cat(&[&[0x02, 0x80], &c]));
            let l = c.len().min(255) as u8;
            out.push(cat(&[&[0x02, 0x81, l], &c]));
            out.push(cat(&[&[0x02, 0x82, 0, l], &c]));
            out.push(cat(&[&[0x02, 0x84, 0, 0, 0, l], &c]));
            out.push(cat(&[&[0x02, 0x85, 0, 0, 0, 0, l], &c]));
            out.push(cat(&[&[0x02, 0x88, 0, 0, 0, 0, 0, 0, 0, l], &c]));
            out.push(cat(&[&[0x02, 0xff], &c]));
            out.push(vec![0x02, 0x00]);
            // nested: INTEGER inside a SEQUENCE
            if canon.len() < 0x80 {
                out.push(cat(&[&[0x30, canon.len() as u8], &canon]));
            }
        }
        Fam::DerContent => {
            if canon.len() >= 2 && canon[0] == 0 {
                out.push(canon[1..].to_vec());
            }
            out.push(cat(&[&[0], &canon]));
            out.push(cat(&[&[0, 0], &canon]));
            out.push(cat(&[&[0xff], &canon]));
            out.push(cat(&[&[0], &fixed]));
            out.push(fixed.clone());
        }
        Fam::ScaleFixed => {
            let le = rev(&fixed);
            let lemin = rev(p);
            // shorter / longer byte vectors denoting the same value
            out.push(enc_scale_fixed(&lemin));
            out.push(enc_scale_fixed(&cat(&[&le, &[0]])));
            out.push(enc_scale_fixed(&cat(&[&le, &[0u8; 8]])));
            out.push(enc_scale_fixed(&cat(&[&le, &[1]])));
            // non-canonical and hostile length prefixes
            let n = le.len() as u32;
            if n < 64 {
                out.push(cat(&[&(((n as u16) << 2) | 1).to_le_bytes(), &le]));
            }
            out.push(cat(&[&((n << 2) | 2).to_le_bytes(), &le]));
            out.push(cat(&[&[0x03], &n.to_le_bytes(), &le]));
            out.push(cat(&[&[0x07], &n.to_le_bytes(), &[0], &le]));
            out.push(cat(&[&[0xfe, 0xff, 0xff, 0xff], &le]));
            out.push(cat(&[&[0x03, 0xff, 0xff, 0xff, 0xff], &le]));
            out.push(cat(&[&[0x13, 0xff, 0xff, 0xff, 0xff, 0xff, 0xff, 0xff, 0xff], &le]));
            out.push(cat(&[&[0xff], &le]));
        }
        Fam::ScaleCompact => {
            let lemin = rev(p);
            // non-minimal modes for the same value
            if p.len() <= 1 && p.first().copied().unwrap_or(0) < 64 {
                let x = u32::from(p.first().copied().unwrap_or(0));
                out.push((((x as u16) << 2) | 1).to_le_bytes().to_vec());
                out.push(((x << 2) | 2).to_le_bytes().to_vec());
            }
            if lemin.len() <= 4 {
                let mut q = lemin.clone();
                q.resize(4, 0);
                out.push(cat(&[&[0x03], &q]));
            }
            // big-integer mode with 4..=67 bytes: exact, zero-extended, special arms
            for n in [4usize, 5, 7, 8, 9, 15, 16, 17, by, by + 1, 67] {
                if n >= lemin.len() && (4..=67).contains(&n) {
                    let mut q = lemin.clone();
                    q.resize(n, 0);
                    out.push(cat(&[&[(((n - 4) as u8) << 2) | 3], &q]));
                }
            }
            // full-width payload with every byte 0xff in the arms that decode primitives
            for n in [4usize, 8, 16] {
                out.push(cat(&[&[(((n - 4) as u8) << 2) | 3], &vec![0xff; n]]));
            }
            out.push(cat(&[&[0xff], &vec![0xff; 67]]));
        }
        Fam::Bincode => {
            let pl = |len: u64, body: &[u8]| cat(&[&len.to_le_bytes(), body]);
            out.push(pl(by as u64 + 1, &fixed));
            out.push(pl((by as u64).wrapping_sub(1), &fixed));
            out.push(enc_bincode(p));
            out.push(enc_bincode(&cat(&[&[0], &fixed])));
            out.push(enc_bincode(&cat(&[&[0u8; 8], &fixed])));
            out.push(pl(0, &fixed));
            out.push(pl(1 << 32, &fixed));
            out.push(pl(1 << 63, &fixed));
            out.push(pl(u64::MAX, &fixed));
            out.push(pl(u64::MAX - 7, &fixed));
        }
        Fam::Le => {
            out.push(rev(p));
            out.push(cat(&[&rev(&fixed), &[0u8; 8]]));
            out.push(cat(&[&rev(&fixed), &[1]]));
        }
        Fam::Be => {
            out.push(p.to_vec());
            out.push(cat(&[&[0], &fixed]));
            out.push(cat(&[&[0u8; 8], &fixed]));
            out.push(cat(&[&[1], &fixed]));
        }
        Fam::Varbit => {
            let body = &canon[4..];
            let n0 = i32::from_be_bytes(canon[..4].try_into().unwrap());
            for n in [n0 - 1, n0 + 1, n0 + 7, n0 + 8, n0 - 8, 0, 1, 7, 8, 9, -1, i32::MIN, i32::MAX, (8 * body.len()) as i32] {
                out.push(enc_varbit(n, body));
            }
            for n in [1, 7, 8, n0.max(1)] {
                out.push(enc_varbit(n, &[]));
            }
            // padding bits set
            let pad = (8 - (n0.max(0) as usize) % 8) % 8;
            if pad > 0 && !body.is_empty() {
                let mut b2 = body.to_vec();
                *b2.last_mut().unwrap() |= (1u8 << pad) - 1;
                out.push(enc_varbit(n0, &b2));
            }
            // whole bytes with every excess bit set
            out.push(enc_varbit((8 * by) as i32, &vec![0xff; by]));
            out.push(enc_varbit(bits as i32, &vec![0xff; by]));
        }
        Fam::Numeric => {
            let (ds, w) = numeric_digits(&BigUint::from_bytes_be(mag));
            let nd = ds.len() as i16;
            for sign in [0x4000u16, 0xc000, 0xd000, 0xf000, 0x0001, 0x8000] {
                out.push(numeric_raw(nd, w, sign, 0, &ds));
            }
            for dscale in [1u16, 2, 0x3fff, 0xffff] {
                out.push(numeric_raw(nd, w, 0, dscale, &ds));
            }
            for nd2 in [nd - 1, nd + 1, -1, i16::MIN, i16::MAX, 0] {
                out.push(numeric_raw(nd2, w, 0, 0, &ds));
            }
            for w2 in [w - 1, w + 1, nd - 2, -1, i16::MIN, i16::MAX, i16::MAX - 1, w + 40] {
                out.push(numeric_raw(nd, w2, 0, 0, &ds));
            }
            for bad in [10000i16, 9999, -1, i16::MIN, i16::MAX] {
                if !ds.is_empty() {
                    let mut d2 = ds.clone();
                    *d2.last_mut().unwrap() = bad;
                    out.push(numeric_raw(nd, w, 0, 0, &d2));
                    let mut d2 = ds.clone();
                    d2[0] = bad;
                    out.push(numeric_raw(nd, w, 0, 0, &d2));
                }
            }
            // untrimmed trailing zero digits, leading zero digits
            let mut d2 = ds.clone();
            d2.push(0);
            out.push(numeric_raw(nd + 1, w.max(nd), 0, 0, &d2));
            let mut d2 = vec![0i16];
            d2.extend_from_slice(&ds);
            out.push(numeric_raw(nd + 1, w + 1, 0, 0, &d2));
            // zero with hostile weights
            for w2 in [0i16, 1, -1, 100, i16::MAX - 1, i16::MAX, i16::MIN] {
                out.push(numeric_raw(0, w2, 0, 0, &[]));
            }
        }
    }
    out
}

fn rand_bytes(r: &mut Rng, n: usize) -> Vec<u8> {
    match r.below(6) {
        0 => vec![0xff; n],
        1 => vec![0; n],
        2 => (0..n).map(|_| *r.pick(&[0u8, 1, 2, 0x7f, 0x80, 0x81, 0xb7, 0xb8, 0xc0, 0xf8, 0xff])).collect(),
        _ => r.bytes(n),
    }
}

/// One random mutation of an encoding, biased towards the header.
fn mutate_random(r: &mut Rng, enc: &[u8]) -> Vec<u8> {
    let mut e = enc.to_vec();
    let n = e.len();
    if n == 0 {
        let k = r.range(0, 2);
        return rand_bytes(r, k);
    }
    let p = if r.bool() { r.below(n.min(4)) } else { r.below(n) };
    match r.below(10) {
        0 => e.truncate(r.below(n)),
        1 => {
            let k = r.range(1, 4);
            e.extend(rand_bytes(r, k));
        }
        2 => e[p] ^= 1 << r.below(8),
        3 => e[p] = *r.pick(&[0u8, 1, 0x7f, 0x80, 0x81, 0xff]),
        4 => e[p] = e[p].wrapping_add(1),
        5 => e[p] = e[p].wrapping_sub(1),
        6 => e.insert(p, 0),
        7 => e.insert(p, *r.pick(&[0xffu8, 0x80, 0x01])),
        8 => {
            e.remove(p);
        }
        _ => {
            let q = r.below(n);
            e.swap(p, q);
        }
    }
    e
}

/// Random hostile magnitude: in range, with an excess high bit, longer, or
/// with leading zeros.
fn hostile_mag(r: &mut Rng, bits: usize) -> Vec<u8> {
    let by = (bits + 7) / 8;
    let base = pad_be(&be_min(&gen::hostile(r, bits)), by);
    match r.below(8) {
        0 | 1 => {
            let mut v = base;
            if 8 * by > bits {
                let e = r.range(bits, 8 * by - 1);
                v[0] |= 1 << (e - 8 * (by - 1));
                v
            } else {
                cat(&[&[*r.pick(&[1u8, 0x7f, 0x80, 0xff])], &v])
            }
        }
        2 => cat(&[&[*r.pick(&[1u8, 0x7f, 0x80, 0xff])], &base]),
        3 => cat(&[&vec![0u8; r.range(1, 9)], &base]),
        _ => base,
    }
}

// ---------------------------------------------------------------------------
// Text inputs
// ---------------------------------------------------------------------------

const B64: &[u8; 64] = b"ABCDEFGHIJKLMNOPQRSTUVWXYZabcdefghijklmnopqrstuvwxyz0123456789+/";

fn fmt_radix(v: &BigUint, radix: u32) -> String {
    if radix <= 36 {
        v.to_str_radix(radix)
    } else {
        v.to_radix_be(radix).iter().map(|&d| B64[d as usize] as char).collect()
    }
}

fn emit_text(m: &mut Mon, bits: usize, s: &str) {
    m.case("from_str", bits, vec![asr(s)]);
    m.case("serde.str", bits, vec![asr(s)]);
    for op in ["postgres.TEXT", "postgres.VARCHAR", "postgres.CHAR", "postgres.JSON"] {
        m.case(op, bits, vec![ab(s.as_bytes())]);
    }
    let q = format!("\"{s}\"");
    m.case("postgres.JSON", bits, vec![ab(q.as_bytes())]);
    m.case("postgres.JSONB", bits, vec![ab(&cat(&[&[1], q.as_bytes()]))]);
    m.case("postgres.JSONB", bits, vec![ab(&cat(&[&[1], s.as_bytes()]))]);
    m.case("serde_json.str", bits, vec![asr(&q)]);
    m.case("serde_json.slice", bits, vec![ab(q.as_bytes())]);
    m.case("serde_json.value", bits, vec![asr(&q)]);
}

fn emit_json_doc(m: &mut Mon, bits: usize, doc: &[u8]) {
    if let Ok(s) = std::str::from_utf8(doc) {
        m.case("serde_json.str", bits, vec![asr(s)]);
        m.case("serde_json.value", bits, vec![asr(s)]);
    }
    m.case("serde_json.slice", bits, vec![ab(doc)]);
    m.case("postgres.JSON", bits, vec![ab(doc)]);
    m.case("postgres.JSONB", bits, vec![ab(&cat(&[&[1], doc]))]);
}

const SPECIAL_TEXT: &[&str] = &[
    "", "0", "1", "_", "__", "0_", "_0", "0x", "0X", "0o", "0O", "0b", "0B", "0x_", "x", "00", "0x0", "0x00",
    "0b2", "0o8", "0xg", "0xG", "0x:", "0x/", "0x@", "0x`", "0x{", "0x[", "é", "0é", "0xé", "€", "0€", "0x€1",
    "\u{0}", "0\u{0}", "١٢٣", "０", "１", "𝟘", "1e3", "1E3", "1.0", "1.", ".1", "-1", "+1", "-0", "+0", " 1",
    "1 ", "\t1", "1\n", "0x 1", "0x-1", "0x+1", "0x0x1", "0b0x1", "0B1", "0O7", "0x1_", "0x_1", "1__2",
    "\"", "\"\"", "\"1", "1\"", "\"0x1", "'1'", "0x\"1\"", "\u{200b}1", "1\u{200b}", "\u{feff}1", "a", "A", "z",
    "Z", "ff", "FF", "0xff", "0xFF", "0XfF", "0b1", "0b0", "0o7", "0b", "0d1", "0h1", "#1", "$1", "1,000", "1_000",
    "1 000", "null", "true", "NaN", "inf",
];

fn text_corpus(bits: usize, mags: &[Vec<u8>]) -> Vec<String> {
    let mut out: Vec<String> = SPECIAL_TEXT.iter().map(|s| s.to_string()).collect();
    for (i, mag) in mags.iter().enumerate() {
        let v = BigUint::from_bytes_be(mag);
        let forms = [format!("{v}"), format!("0x{v:x}"), format!("0X{v:X}"), format!("0o{v:o}"), format!("0b{v:b}")];
        out.extend(forms.iter().cloned());
        if i >= 24 && i % 4 != 0 {
            continue;
        }
        for s in &forms[..2] {
            let n = s.len();
            for pos in [0usize, 1, 2, n / 2, n] {
                for ins in ["_", "0", "g", " ", "é", "\"", "-", "x"] {
                    let mut t = s.clone();
                    t.insert_str(pos.min(n), ins);
                    out.push(t);
                }
            }
            out.push(s[..n - 1].to_string());
            out.push(format!("{s}0"));
            out.push(format!("{s}\n"));
            out.push(format!("{s}\u{0}"));
            out.push(format!(" {s}"));
            out.push(format!("+{s}"));
            out.push(format!("-{s}"));
            out.push(s.to_uppercase());
            let (pre, dig) = if s.starts_with("0x") { ("0x", &s[2..]) } else { ("", &s[..]) };
            out.push(format!("{pre}{}{dig}", "0".repeat(64)));
            out.push(format!("{pre}{}{dig}", "0".repeat(700)));
            out.push(format!("{pre}{}{dig}", "_".repeat(33)));
            out.push(format!("{pre}{dig}{}", "_".repeat(33)));
        }
    }
    // very long digit strings
    let dec_digits = bits * 30103 / 100000 + 1;
    out.push("9".repeat(dec_digits));
    out.push("9".repeat(dec_digits + 1));
    out.push("9".repeat(1000));
    out.push(format!("1{}", "0".repeat(5000)));
    out.push(format!("{}1", "0".repeat(10000)));
    out.push(format!("0x{}", "f".repeat((bits + 3) / 4 + 1)));
    out.push(format!("0x{}", "f".repeat(4000)));
    out.push(format!("0x{}1", "0".repeat(10000)));
    out.push(format!("0b{}", "1".repeat(bits + 1)));
    out.push(format!("0b{}", "1".repeat(bits)));
    out.push(format!("0o{}", "7".repeat(bits / 3 + 2)));
    out.push("_".repeat(3000));
    out
}

const TEXT_ALPHABET: &[&str] = &[
    "0", "1", "2", "7", "8", "9", "a", "f", "A", "F", "g", "z", "x", "X", "o", "b", "B", "_", "\"", " ", "\n", "\t",
    "+", "-", ".", "e", "é", "١", "０", "\u{0}", "\\", "/", ",", "=", "0x", "0b", "0o", "0X",
];

fn random_text(r: &mut Rng, bits: usize) -> String {
    let maxlen = (bits + 3) / 4 + 8;
    let n = match r.below(6) {
        0 => r.range(0, 3),
        1 => r.range(0, maxlen * 4),
        _ => r.range(0, maxlen),
    };
    let mut s = String::new();
    match r.below(5) {
        0 => s.push_str("0x"),
        1 => s.push_str(*r.pick(&["0X", "0o", "0b", "0O", "0B", "\"0x", " ", "+"])),
        _ => {}
    }
    let clean = r.chance(2, 3);
    for _ in 0..n {
        if clean && !r.chance(1, 24) {
            s.push(*r.pick(&['0', '1', '2', '5', '7', '8', '9', 'a', 'c', 'f', 'F', '_']));
        } else {
            s.push_str(*r.pick(TEXT_ALPHABET));
        }
    }
    s
}

const JSON_DOCS: &[&str] = &[
    "", " ", "0", "1", "2", "255", "256", "65535", "65536", "4294967295", "4294967296", "18446744073709551615",
    "18446744073709551616", "340282366920938463463374607431768211455", "-1", "-0", "1.0", "1.5", "1e2", "1E2", "1e999",
    "01", "0x1", "null", "true", "false", "[]", "{}", "[1]", "{\"a\":1}", "\"0x1\" x", " \"0x1\" ", "\n\"0x1\"\n",
    "\"\\u0030x1\"", "\"0x1\\n\"", "\"0x\\u0031\"", "\"\\ud800\"", "\"\\", "\"", "\"\"", "\"0x1", "0x1\"", "'0x1'",
    "\"0x1\"\"0x2\"", "\"0x1\",", "[\"0x1\"]", "\"\u{0}\"", "\"é\"", "\"0\"", "\"0x0\"", "\"0x\"", "\"0b\"",
    "\"0o\"", "\"x\"", "\"_\"",
];

// ---------------------------------------------------------------------------
// Workload
// ---------------------------------------------------------------------------

/// Binary decoders fed with raw byte strings (random and exhaustive sweeps).
const BIN_OPS: &[&str] = &[
    "try_from_be_slice", "try_from_le_slice", "bincode", "bincode.bits", "rlp", "rlp.bits", "alloy_rlp", "fastrlp03",
    "fastrlp04", "scale.fixed", "scale.compact", "ssz", "borsh", "borsh.bits", "der", "der.intref", "der.int",
    "der.uintref", "der.uint", "biguint.try_from", "postgres.BOOL", "postgres.INT2", "postgres.INT4", "postgres.INT8",
    "postgres.OID", "postgres.FLOAT4", "postgres.FLOAT8", "postgres.MONEY", "postgres.NUMERIC", "postgres.BYTEA",
    "postgres.BIT", "postgres.VARBIT", "postgres.TEXT", "postgres.VARCHAR", "postgres.CHAR", "postgres.JSON",
    "postgres.JSONB", "serde_json.slice", "postgres.TIMESTAMP",
];

/// Subset swept exhaustively over all 2-byte inputs (one op per distinct code path).
const SWEEP2_OPS: &[&str] = &[
    "try_from_be_slice", "try_from_le_slice", "bincode", "rlp", "rlp.bits", "alloy_rlp", "fastrlp03", "fastrlp04",
    "scale.fixed", "scale.compact", "ssz", "borsh", "der", "der.intref", "der.uintref", "postgres.BOOL",
    "postgres.INT2", "postgres.INT4", "postgres.INT8", "postgres.OID", "postgres.FLOAT4", "postgres.FLOAT8",
    "postgres.MONEY", "postgres.NUMERIC", "postgres.BYTEA", "postgres.BIT", "postgres.VARBIT", "postgres.TEXT",
    "postgres.JSON", "postgres.JSONB",
];

const PG_FIXED: &[(&str, usize)] = &[
    ("postgres.BOOL", 1), ("postgres.INT2", 2), ("postgres.INT4", 4), ("postgres.OID", 4), ("postgres.INT8", 8),
    ("postgres.MONEY", 8), ("postgres.FLOAT4", 4), ("postgres.FLOAT8", 8),
];

fn fault_offsets(n: usize) -> Vec<usize> {
    let mut ks: Vec<usize> = (0..=n).filter(|&k| k <= 12 || k + 10 >= n || k % 8 == 0).collect();
    ks.push(n + 1);
    ks
}

fn reader_cases(m: &mut Mon, op: &str, bits: usize, enc: &[u8]) {
    for flags in 0..8u128 {
        m.case(op, bits, vec![ab(enc), Arg::N(0), Arg::N(flags)]);
    }
    for k in fault_offsets(enc.len()) {
        for flags in 8..16u128 {
            m.case(op, bits, vec![ab(enc), Arg::N(k as u128), Arg::N(flags)]);
        }
    }
}

fn pg_int_directed(m: &mut Mon, bits: usize) {
    let lim: i128 = if bits >= 100 { i128::MAX } else { 1i128 << bits };
    let mut vals: Vec<i128> = vec![0, 1, 2, -1, -2, 99, 100, 101, -99, -100, -101, 199, 200];
    let c = lim.saturating_mul(100);
    for t in [lim - 1, lim, lim.saturating_add(1), (lim - 1).saturating_mul(100), c, c.saturating_add(99), c - 1] {
        vals.push(t);
        vals.push(-t);
    }
    for k in [7, 8, 15, 16, 31, 32, 63, 64] {
        vals.extend([(1i128 << k) - 1, 1i128 << k, -(1i128 << k), -(1i128 << k) - 1]);
    }
    for &v in &vals {
        let be = v.to_be_bytes();
        for &(op, n) in PG_FIXED {
            m.case(op, bits, vec![ab(&be[16 - n..])]);
        }
    }
    for &(op, n) in PG_FIXED {
        for len in [0, n - 1, n + 1, 2 * n] {
            m.case(op, bits, vec![ab(&vec![0u8; len])]);
            m.case(op, bits, vec![ab(&vec![1u8; len])]);
        }
    }
    for f in [0.0f64, -0.0, 0.49, 0.5, 1.0, 1.5, -1.0, 255.0, 256.0, 2f64.powi(bits.min(1000) as i32),
        2f64.powi(bits.min(1000) as i32) - 0.5, 1e300, f64::MAX, f64::MIN_POSITIVE, 5e-324, f64::INFINITY,
        f64::NEG_INFINITY, f64::NAN, 9007199254740993.0] {
        m.case("postgres.FLOAT8", bits, vec![ab(&f.to_be_bytes())]);
        m.case("postgres.FLOAT4", bits, vec![ab(&(f as f32).to_be_bytes())]);
    }
    for b in [&[][..], &[0], &[1], &[2], &[255], &[0, 0], &[1, 0], &[0, 1]] {
        m.case("postgres.BOOL", bits, vec![ab(b)]);
    }
    for op in ["postgres.TIMESTAMP", "postgres.UUID", "postgres.INT4_ARRAY"] {
        for b in [&[][..], &[0], &[0, 0, 0, 1], &[0; 8], &[0; 16]] {
            m.case(op, bits, vec![ab(b)]);
        }
    }
}

fn workload(m: &mut Mon, bits: usize) {
    let by = (bits + 7) / 8;
    let keys = key_mags(bits);
    let bd: Vec<Vec<u8>> = gen::boundary(bits).iter().map(|l| pad_be(&be_min(l), by)).collect();

    // (a) valid encodings of boundary / hostile values with one field mutated.
    let mut lr = m.stream("c17.light", bits);
    for (i, mag) in keys.iter().chain(bd.iter()).enumerate() {
        let full = i < keys.len();
        for &f in FAMILIES {
            if !m.keep() {
                continue;
            }
            let vars = fam_variants(f, bits, mag, full);
            if m.is_light() {
                // Miri / memcheck: a few variants of many encodings rather than
                // all variants of very few.
                for _ in 0..vars.len().min(4) {
                    let v: &Vec<u8> = lr.pick(&vars[..]);
                    emit(m, f, bits, v);
                }
                continue;
            }
            for v in vars {
                emit(m, f, bits, &v);
            }
        }
        if m.keep() {
            let le = rev(mag);
            m.case("biguint.try_from", bits, vec![ab(&le)]);
            m.case("bigint.try_from", bits, vec![ab(&le), Arg::N(0)]);
            m.case("bigint.try_from", bits, vec![ab(&le), Arg::N(1)]);
        }
        if m.time_up() {
            return;
        }
    }
    // DER objects with foreign tags.
    for tag in [0u128, 1, 2, 3, 4, 5, 6, 0x0a, 0x0c, 0x1f, 0x22, 0x30, 0x31, 0x42, 0x80, 0x82, 0xa2, 0xc2, 0xff] {
        for c in [&[][..], &[0], &[1], &[0x7f], &[0x80], &[0, 0x80], &[0, 1], &[0xff, 0xff]] {
            if !m.keep() {
                continue;
            }
            m.case("der.anyref", bits, vec![ab(c), Arg::N(tag)]);
            m.case("der.any", bits, vec![ab(c), Arg::N(tag)]);
        }
    }
    if m.keep() {
        pg_int_directed(m, bits);
    }
    // serde integer visitors.
    for k in [0usize, 1, 7, 8, 9, 16, 60, 63, 64, 65, 124, 127, 128] {
        for d in [-1i32, 0, 1] {
            if !m.keep() || k > 128 {
                continue;
            }
            let x: u128 = if k == 128 { u128::MAX } else { 1u128 << k };
            let x = if d < 0 { x.wrapping_sub(1) } else { x.wrapping_add(d as u128) };
            m.case("serde.u128", bits, vec![Arg::N(x)]);
            m.case("serde.u64", bits, vec![Arg::N(x & u128::from(u64::MAX))]);
        }
    }

    // Fault injection: readers that deliver one byte at a time, interrupt, end
    // or fail at each offset.
    for (i, mag) in keys.iter().enumerate() {
        if i % 3 != 0 && i + 8 < keys.len() {
            continue;
        }
        if !m.keep() {
            continue;
        }
        reader_cases(m, "borsh.reader", bits, &fam_canon(Fam::Le, bits, mag));
        reader_cases(m, "bincode.reader", bits, &fam_canon(Fam::Bincode, bits, mag));
        reader_cases(m, "scale.fixed.input", bits, &fam_canon(Fam::ScaleFixed, bits, mag));
        reader_cases(m, "scale.compact.input", bits, &fam_canon(Fam::ScaleCompact, bits, mag));
        if m.time_up() {
            return;
        }
    }
    for flags in 0..16u128 {
        // hostile length prefixes through the faulty inputs (bounded for the bincode reader)
        let le = vec![0xffu8; by];
        if !m.keep() {
            continue;
        }
        m.case("scale.fixed.input", bits, vec![ab(&cat(&[&[0xfe, 0xff, 0xff, 0xff], &le])), Arg::N(3), Arg::N(flags)]);
        m.case("scale.fixed.input", bits, vec![ab(&cat(&[&[0x03, 0xff, 0xff, 0xff, 0xff], &le])), Arg::N(7), Arg::N(flags)]);
        m.case("bincode.reader", bits, vec![ab(&cat(&[&4096u64.to_le_bytes(), &le])), Arg::N(9), Arg::N(flags)]);
        m.case("bincode.reader", bits, vec![ab(&cat(&[&(by as u64 + 1).to_le_bytes(), &le])), Arg::N(8 + by as u128), Arg::N(flags)]);
    }

    // (b) every 1-byte and every 2-byte input, exhaustively.
    if m.is_light() {
        let mut r = m.stream("c17.sweep.light", bits);
        for i in 0..m.iters(48) {
            let k = r.range(0, 2);
            let b = r.bytes(k);
            for (j, op) in BIN_OPS.iter().enumerate() {
                if (i + j) % 6 == 0 {
                    m.case(op, bits, vec![ab(&b)]);
                }
            }
        }
    } else {
        for op in BIN_OPS {
            m.case(op, bits, vec![ab(&[])]);
            for x in 0..=255u8 {
                m.case(op, bits, vec![ab(&[x])]);
            }
        }
        m.mark_exhaustive(format!("all 0- and 1-byte inputs for {} binary decoder entry points at BITS={bits}", BIN_OPS.len()));
        let mut complete = true;
        'sweep: for op in SWEEP2_OPS {
            for x in 0..=255u8 {
                if m.time_up() {
                    complete = false;
                    break 'sweep;
                }
                for y in 0..=255u8 {
                    m.case(op, bits, vec![Arg::B(vec![x, y])]);
                }
            }
        }
        if complete {
            m.mark_exhaustive(format!("all 2-byte inputs for {} binary decoder entry points at BITS={bits}", SWEEP2_OPS.len()));
        }
    }

    // (c) random byte strings up to BYTES+16 and randomly mutated encodings.
    let mut r = m.stream("c17.random", bits);
    let light = m.is_light();
    for i in 0..m.iters(3000) {
        if (light || i % 128 == 0) && m.time_up() {
            return;
        }
        let len = match r.below(8) {
            0 => r.range(0, 3),
            1 => by,
            2 => by + 1,
            3 => by.saturating_sub(1),
            _ => r.range(0, by + 16),
        };
        let b = rand_bytes(&mut r, len);
        for (j, op) in BIN_OPS.iter().enumerate() {
            // light lanes: unstructured bytes rarely pass a header; spend less there
            if !light || (i + j) % 6 == 0 {
                m.case(op, bits, vec![ab(&b)]);
            }
        }
        m.case("bigint.try_from", bits, vec![ab(&b), Arg::N(r.below(2) as u128)]);
        m.case("der.anyref", bits, vec![ab(&b), Arg::N(if r.chance(3, 4) { 2 } else { r.below(256) as u128 })]);
        for (j, &(op, n)) in PG_FIXED.iter().enumerate() {
            let x = rand_bytes(&mut r, n);
            if !light || (i + j) % 4 == 0 {
                m.case(op, bits, vec![ab(&x)]);
            }
        }
        let mag = hostile_mag(&mut r, bits);
        for &f in FAMILIES {
            let canon = fam_canon(f, bits, &mag);
            let mu = mutate_random(&mut r, &canon);
            emit(m, f, bits, &mu);
            if i % 4 == 0 {
                emit(m, f, bits, &canon);
            }
        }
        if i % 8 == 0 {
            let le = rev(&mag);
            let k = r.range(0, le.len() + 9);
            let flags = r.below(16) as u128;
            m.case("borsh.reader", bits, vec![ab(&mutate_random(&mut r, &le)), Arg::N(k as u128), Arg::N(flags)]);
            let mut e = mutate_random(&mut r, &enc_bincode(&pad_be(strip0(&mag), by)));
            if e.len() >= 8 && u64::from_le_bytes(e[..8].try_into().unwrap()) > 4096 {
                e[1..8].fill(0); // keep declared lengths small for bincode's reader path
            }
            m.case("bincode.reader", bits, vec![ab(&e), Arg::N(k as u128), Arg::N(flags)]);
            let e = mutate_random(&mut r, &fam_canon(Fam::ScaleFixed, bits, &mag));
            m.case("scale.fixed.input", bits, vec![ab(&e), Arg::N(k as u128), Arg::N(flags)]);
            let e = mutate_random(&mut r, &fam_canon(Fam::ScaleCompact, bits, &mag));
            m.case("scale.compact.input", bits, vec![ab(&e), Arg::N(k as u128), Arg::N(flags)]);
        }
        // digit sequences
        {
            let base = *r.pick(&[0u64, 1, 2, 3, 10, 16, 255, 256, 10000, 1 << 32, u64::MAX, u64::MAX - 1]);
            let n = r.range(0, if base < 16 { bits + 3 } else { by / 2 + 3 });
            let digits: Vec<u64> = (0..n)
                .map(|_| match r.below(12) {
                    0 => base,
                    1 => u64::MAX,
                    2 | 3 => 0,
                    4 => base.wrapping_sub(1),
                    _ => r.u64() % base.max(1),
                })
                .collect();
            m.case("from_base_be", bits, vec![Arg::U(digits.clone()), Arg::N(u128::from(base))]);
            m.case("from_base_le", bits, vec![Arg::U(digits), Arg::N(u128::from(base))]);
        }
    }

    // Text decoders.
    let mut tm: Vec<Vec<u8>> = keys.clone();
    tm.extend(bd.iter().step_by(6).cloned());
    if m.is_light() {
        // building the text corpus is itself expensive under Miri / memcheck
        tm = tm.into_iter().step_by(9).collect();
    }
    for (i, s) in text_corpus(bits, &tm).iter().enumerate() {
        if i % 64 == 0 && m.time_up() {
            return;
        }
        if !m.keep() {
            continue;
        }
        emit_text(m, bits, s);
    }
    if m.time_up() {
        return;
    }
    for d in JSON_DOCS {
        if m.keep() {
            emit_json_doc(m, bits, d.as_bytes());
        }
    }
    for mag in keys.iter() {
        if !m.keep() {
            continue;
        }
        let v = BigUint::from_bytes_be(mag);
        emit_json_doc(m, bits, format!("{v}").as_bytes());
        emit_json_doc(m, bits, format!("-{v}").as_bytes());
        emit_json_doc(m, bits, format!("{v}.0").as_bytes());
        emit_json_doc(m, bits, format!("[\"{v}\"]").as_bytes());
        let q = format!("\"0x{v:x}\"");
        for ver in [0u8, 2, 255] {
            m.case("postgres.JSONB", bits, vec![ab(&cat(&[&[ver], q.as_bytes()]))]);
        }
        // invalid UTF-8 inside an otherwise valid text
        for bad in [&[0xffu8][..], &[0xc0, 0x80], &[0xe2, 0x82], &[0xed, 0xa0, 0x80]] {
            let t = cat(&[format!("0x{v:x}").as_bytes(), bad]);
            for op in ["postgres.TEXT", "postgres.VARCHAR", "postgres.CHAR", "postgres.JSON"] {
                m.case(op, bits, vec![ab(&t)]);
            }
            m.case("postgres.JSONB", bits, vec![ab(&cat(&[&[1], &t]))]);
            m.case("serde_json.slice", bits, vec![ab(&cat(&[b"\"", &t, b"\""]))]);
        }
        for radix in [0u32, 1, 2, 3, 7, 8, 10, 16, 35, 36, 37, 62, 63, 64, 65, 100] {
            let s = if (2..=64).contains(&radix) { fmt_radix(&v, radix) } else { format!("{v}") };
            let rn = Arg::N(u128::from(radix));
            m.case("from_str_radix", bits, vec![asr(&s), rn.clone()]);
            m.case("from_str_radix", bits, vec![asr(&s.to_lowercase()), rn.clone()]);
            m.case("from_str_radix", bits, vec![asr(&s.to_uppercase()), rn.clone()]);
            m.case("from_str_radix", bits, vec![asr(&format!("{s}_")), rn.clone()]);
            m.case("from_str_radix", bits, vec![asr(&format!("{s}=\r\n")), rn.clone()]);
            m.case("from_str_radix", bits, vec![asr(&format!("{s}0")), rn.clone()]);
            m.case("from_str_radix", bits, vec![asr(&format!("0{s}")), rn.clone()]);
            m.case("from_str_radix", bits, vec![asr(&format!("{s}é")), rn.clone()]);
        }
    }
    for s in SPECIAL_TEXT {
        for radix in [0u128, 1, 2, 10, 16, 36, 37, 64, 65, u128::from(u64::MAX)] {
            if m.keep() {
                m.case("from_str_radix", bits, vec![asr(s), Arg::N(radix)]);
            }
        }
    }
    let mut r = m.stream("c17.text", bits);
    for i in 0..m.iters(4000) {
        if (light || i % 128 == 0) && m.time_up() {
            return;
        }
        let s = random_text(&mut r, bits);
        emit_text(m, bits, &s);
        let radix = *r.pick(&[2u128, 8, 10, 16, 36, 37, 58, 64, 65]);
        m.case("from_str_radix", bits, vec![asr(&s), Arg::N(radix)]);
        if i % 4 == 0 {
            let doc = mutate_random(&mut r, format!("\"{s}\"").as_bytes());
            emit_json_doc(m, bits, &doc);
        }
    }
}

fn main() {
    let mut m = Mon::new("C17", dispatch);
    if !m.replay_if_requested() {
        let ws: Vec<usize> = WIDTHS.iter().copied().filter(|&b| m.width_enabled(b)).collect();
        // Light lanes (Miri, memcheck) rarely get through every width inside their
        // time budget: each shard starts at a different width.
        let start = if m.is_light() { ((m.cfg.shard * 8 + m.cfg.seed * 3) % ws.len().max(1) as u64) as usize } else { 0 };
        loop {
            for i in 0..ws.len() {
                m.begin_width_slice(i, ws.len());
                workload(&mut m, ws[(start + i) % ws.len()]);
            }
            if !m.another_light_pass() {
                break;
            }
        }
    }
    tally_report(&mut m);
    m.finish();
}
