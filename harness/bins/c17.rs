//! C17 workload (under construction).
fn main() {}
