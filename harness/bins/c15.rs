//! C15 workload (under construction).
fn main() {}
