//! C15 — limb-slice multiply/accumulate/add/subtract/shift/compare kernels of
//! `ruint::algorithms` vs BigUint. Carry and borrow words are judged by
//! conservation (result + word * 2^(64 N) == exact value), not by a formula.

use num_bigint::{BigInt, BigUint};
use num_traits::{ToPrimitive, Zero};
use ruint::algorithms as alg;
use std::cmp::Ordering;
use vmon::{an, au, big, gen, rng::Rng, Arg, Mon};

pub fn dispatch(m: &mut Mon, _bits: usize, op: &str, a: &[Arg]) {
    exec(m, op, a)
}

fn nonzero_limbs(a: &[Arg]) -> usize {
    a.iter()
        .map(|x| match x {
            Arg::U(v) => v.iter().filter(|&&l| l != 0).count(),
            Arg::N(v) => usize::from(*v != 0),
            _ => 0,
        })
        .sum()
}

fn exec(m: &mut Mon, op: &str, a: &[Arg]) {
    m.nontrivial(nonzero_limbs(a) >= 2);
    match op {
        "addmul" => {
            let (acc, x, y) = (a[0].u().to_vec(), a[1].u(), a[2].u());
            let exact = big::big(&acc) + big::big(x) * big::big(y);
            let n = acc.len();
            let e_flag = !big::fits(&exact, 64 * n);
            let e_val = big::wrap(&exact, 64 * n);
            let mut out = acc.clone();
            if let Some(f) = m.must(|| alg::addmul(&mut out, x, y)) {
                m.obs(|| format!("acc'={} overflow={}", big::hex(&out), f));
                m.eq("addmul.value", &out, &e_val);
                m.eq("addmul.flag", &f, &e_flag);
            }
        }
        "addmul_n" => {
            let (acc, x, y) = (a[0].u().to_vec(), a[1].u(), a[2].u());
            let exact = big::big(&acc) + big::big(x) * big::big(y);
            let e_val = big::wrap(&exact, 64 * acc.len());
            let mut out = acc.clone();
            if m.must(|| alg::addmul_n(&mut out, x, y)).is_some() {
                m.eq("addmul_n.value", &out, &e_val);
            }
        }
        "addmul_n_unequal" => {
            // documented: panics if the lengths are not the same; nothing may be computed from mismatched slices
            let (acc, x, y) = (a[0].u().to_vec(), a[1].u(), a[2].u());
            assert!(acc.len() != x.len() || acc.len() != y.len(), "harness: lengths are equal");
            m.nontrivial(true);
            let mut out = acc.clone();
            m.must_panic(|| alg::addmul_n(&mut out, x, y), "lengths differ");
        }
        "adc_sbb_short_rhs" => {
            // `rhs` shorter than `lhs`: no contract on the result (today: a bounds-check panic after the covered
            // limbs). What the safe functions may never do is touch memory outside the two slices: the native
            // lanes only require that the process survives, the interpreter / sanitizer lanes see every access.
            let (acc, x, c) = (a[0].u().to_vec(), a[1].u(), a[2].n() as u64);
            assert!(x.len() < acc.len(), "harness: rhs is not shorter");
            m.nontrivial(true);
            let mut out = acc.clone();
            let r1 = m.call(|| alg::adc_n(&mut out, x, c)).is_err();
            let mut out = acc.clone();
            let r2 = m.call(|| alg::sbb_n(&mut out, x, c)).is_err();
            m.note_add("adc_sbb_short_rhs.panicked", u64::from(r1) + u64::from(r2));
        }
        "mul_nx1" => {
            let (acc, k) = (a[0].u().to_vec(), a[1].n() as u64);
            let exact = big::big(&acc) * BigUint::from(k);
            let n = acc.len();
            let mut out = acc.clone();
            if let Some(c) = m.must(|| alg::mul_nx1(&mut out, k)) {
                m.eq("mul_nx1.value", &out, &big::wrap(&exact, 64 * n));
                m.eq("mul_nx1.carry", &BigUint::from(c), &(&exact >> (64 * n)));
            }
        }
        "addmul_nx1" => {
            let (acc, x, k) = (a[0].u().to_vec(), a[1].u(), a[2].n() as u64);
            let exact = big::big(&acc) + big::big(x) * BigUint::from(k);
            let n = acc.len();
            let mut out = acc.clone();
            if let Some(c) = m.must(|| alg::addmul_nx1(&mut out, x, k)) {
                m.eq("addmul_nx1.value", &out, &big::wrap(&exact, 64 * n));
                m.eq("addmul_nx1.carry", &BigUint::from(c), &(&exact >> (64 * n)));
            }
        }
        "submul_nx1" => {
            // lhs' = lhs - a*b + borrow * 2^(64 N), 0 <= lhs' < 2^(64 N)
            let (acc, x, k) = (a[0].u().to_vec(), a[1].u(), a[2].n() as u64);
            let n = acc.len();
            let exact = BigInt::from(big::big(&acc)) - BigInt::from(big::big(x) * BigUint::from(k));
            let mut out = acc.clone();
            if let Some(b) = m.must(|| alg::submul_nx1(&mut out, x, k)) {
                let back = BigInt::from(big::big(&out)) - (BigInt::from(b) << (64 * n));
                m.check(back == exact, "submul_nx1.conservation", || format!("lhs' - borrow*2^(64N) = {exact}"), || {
                    format!("lhs'={} borrow={b:#x}", big::hex(&out))
                });
            }
        }
        "add_nx1" => {
            let (acc, k) = (a[0].u().to_vec(), a[1].n() as u64);
            let exact = big::big(&acc) + BigUint::from(k);
            let n = acc.len();
            let mut out = acc.clone();
            if let Some(c) = m.must(|| alg::add_nx1(&mut out, k)) {
                m.eq("add_nx1.value", &out, &big::wrap(&exact, 64 * n));
                m.eq("add_nx1.carry", &BigUint::from(c), &(&exact >> (64 * n)));
            }
        }
        "adc_n" => {
            let (acc, x, c) = (a[0].u().to_vec(), a[1].u(), a[2].n() as u64);
            let exact = big::big(&acc) + big::big(x) + BigUint::from(c);
            let n = acc.len();
            let mut out = acc.clone();
            if let Some(co) = m.must(|| alg::adc_n(&mut out, x, c)) {
                m.eq("adc_n.value", &out, &big::wrap(&exact, 64 * n));
                m.eq("adc_n.carry", &BigUint::from(co), &(&exact >> (64 * n)));
            }
        }
        "sbb_n" => {
            let (acc, x, b) = (a[0].u().to_vec(), a[1].u(), a[2].n() as u64);
            let n = acc.len();
            let exact = BigInt::from(big::big(&acc)) - BigInt::from(big::big(x)) - BigInt::from(b);
            let mut out = acc.clone();
            if let Some(bo) = m.must(|| alg::sbb_n(&mut out, x, b)) {
                let back = BigInt::from(big::big(&out)) - (BigInt::from(bo) << (64 * n));
                m.check(back == exact, "sbb_n.conservation", || format!("lhs' - borrow*2^(64N) = {exact}"), || {
                    format!("lhs'={} borrow={bo:#x}", big::hex(&out))
                });
            }
        }
        "adc" => {
            let (x, y, c) = (a[0].n() as u64, a[1].n() as u64, a[2].n() as u64);
            let exact = u128::from(x) + u128::from(y) + u128::from(c);
            if let Some(v) = m.must(|| alg::adc(x, y, c)) {
                m.eq("adc", &v, &(exact as u64, (exact >> 64) as u64));
            }
        }
        "sbb" => {
            let (x, y, b) = (a[0].n() as u64, a[1].n() as u64, a[2].n() as u64);
            let exact = i128::from(x) - i128::from(y) - i128::from(b);
            if let Some((v, bo)) = m.must(|| alg::sbb(x, y, b)) {
                let back = i128::from(v) - (i128::from(bo) << 64);
                m.check(back == exact, "sbb.conservation", || format!("{exact}"), || format!("value={v:#x} borrow={bo}"));
            }
        }
        "carrying_add" => {
            let (x, y, c) = (a[0].n() as u64, a[1].n() as u64, a[2].n() != 0);
            let exact = u128::from(x) + u128::from(y) + u128::from(c);
            if let Some(v) = m.must(|| alg::carrying_add(x, y, c)) {
                m.eq("carrying_add", &v, &(exact as u64, exact >> 64 != 0));
            }
        }
        "borrowing_sub" => {
            let (x, y, b) = (a[0].n() as u64, a[1].n() as u64, a[2].n() != 0);
            let exact = i128::from(x) - i128::from(y) - i128::from(b);
            if let Some(v) = m.must(|| alg::borrowing_sub(x, y, b)) {
                m.eq("borrowing_sub", &v, &(exact as u64, exact < 0));
            }
        }
        "shift_left_small" => {
            let (v0, s) = (a[0].u().to_vec(), a[1].us());
            let n = v0.len();
            let exact = big::big(&v0) << s;
            let mut out = v0.clone();
            if let Some(o) = m.must(|| alg::shift_left_small(&mut out, s)) {
                m.eq("shift_left_small.value", &out, &big::wrap(&exact, 64 * n));
                m.eq("shift_left_small.out", &BigUint::from(o), &(&exact >> (64 * n)));
            }
        }
        "shift_right_small" => {
            // bits shifted out are returned left-aligned in the returned word
            let (v0, s) = (a[0].u().to_vec(), a[1].us());
            let n = v0.len();
            let wide = big::big(&v0) << 64usize; // one extra low limb to catch the bits
            let shifted = &wide >> s;
            let mut out = v0.clone();
            if let Some(o) = m.must(|| alg::shift_right_small(&mut out, s)) {
                let e_val = big::limbs(&(&shifted >> 64usize), n);
                let e_out = (&shifted % big::p2(64)).to_u64().unwrap();
                m.eq("shift_right_small.value", &out, &e_val);
                m.eq("shift_right_small.out", &o, &e_out);
            }
        }
        "cmp" => {
            let (x, y) = (a[0].u(), a[1].u());
            let e: Ordering = big::big(x).cmp(&big::big(y));
            if let Some(v) = m.must(|| alg::cmp(x, y)) {
                m.eq("cmp", &v, &e);
            }
        }
        _ => panic!("harness: unknown op {op}"),
    }
    let _ = BigUint::zero();
}

fn word(r: &mut Rng) -> u64 {
    gen::alpha_limb(r)
}

fn workload(m: &mut Mon) {
    // ---- addmul: all accumulator / operand lengths 0..=10 independently
    let mut r = m.stream("c15.addmul", 0);
    let reps = m.iters(14);
    for ln in 0..=10usize {
        for la in 0..=10usize {
            for lb in 0..=10usize {
                if !m.keep() {
                    continue;
                }
                for k in 0..reps {
                    let acc = if k % 3 == 0 { vec![u64::MAX; ln] } else { gen::slice(&mut r, ln) };
                    let x = gen::slice(&mut r, la);
                    let y = gen::slice(&mut r, lb);
                    m.case("addmul", 64 * ln, vec![au(&acc), au(&x), au(&y)]);
                    if k == 0 && (la != ln || lb != ln) && ln <= 6 && la <= 6 && lb <= 6 {
                        m.case("addmul_n_unequal", 64 * ln, vec![au(&acc), au(&x), au(&y)]);
                    }
                }
            }
        }
        if m.time_up() {
            break;
        }
    }
    if !m.is_light() {
        m.mark_exhaustive("every (accumulator, a, b) length combination in 0..=10 ^3 for addmul (contents sampled)");
    }
    // ---- addmul: memory shapes. One case for every combination of accumulator length 0..=3, number of low zero
    // limbs of either operand 0..=3 and a zero high limb or not - in particular operands whose low zero limbs
    // together exceed the accumulator (the window is exhausted before the first product limb). Values are judged
    // as usual; the point is that the interpreter lanes see every one of these shapes: there the corpus is not
    // thinned (the per-operation decay of `case` would keep one or two of them) but split between the shards.
    let mut idx = 0u64;
    for ln in 0..=3usize {
        for za in 0..=3usize {
            for zb in 0..=3usize {
                for hz in 0..2 {
                    let mut x = vec![0u64; za];
                    x.push(u64::MAX);
                    let mut y = vec![0u64; zb];
                    y.push(3);
                    if hz == 1 {
                        x.push(0);
                        y.push(0);
                    }
                    let args = vec![au(&vec![u64::MAX; ln]), au(&x), au(&y)];
                    idx += 1;
                    if !m.is_light() {
                        m.case("addmul", 64 * ln, args);
                    } else if m.light_owns(idx, "addmul") {
                        m.case_always("addmul", 64 * ln, args);
                    }
                }
            }
        }
    }
    // ---- equal-length kernels, lengths 0..=12
    let mut r = m.stream("c15.equal", 0);
    let reps = m.iters(1500);
    for n in 0..=12usize {
        for i in 0..reps {
            if i % 512 == 0 && m.time_up() {
                break;
            }
            if !m.keep() {
                continue;
            }
            let acc = gen::slice(&mut r, n);
            let x = gen::slice(&mut r, n);
            let y = gen::slice(&mut r, n);
            let k = word(&mut r);
            let cin = match r.below(4) {
                0 => 0,
                1 | 2 => 1,
                _ => word(&mut r),
            };
            m.case("addmul_n", 64 * n, vec![au(&acc), au(&x), au(&y)]);
            if r.chance(1, 8) {
                // one or both operands a limb or two shorter or longer than the accumulator
                let (dx, dy) = loop {
                    let (dx, dy) = (r.below(5) as isize - 2, r.below(5) as isize - 2);
                    if (dx, dy) != (0, 0) && n as isize + dx >= 0 && n as isize + dy >= 0 {
                        break (dx, dy);
                    }
                };
                let x2 = gen::slice(&mut r, (n as isize + dx) as usize);
                let y2 = gen::slice(&mut r, (n as isize + dy) as usize);
                m.case("addmul_n_unequal", 64 * n, vec![au(&acc), au(&x2), au(&y2)]);
            }
            m.case("mul_nx1", 64 * n, vec![au(&acc), Arg::N(k.into())]);
            m.case("addmul_nx1", 64 * n, vec![au(&acc), au(&x), Arg::N(k.into())]);
            m.case("submul_nx1", 64 * n, vec![au(&acc), au(&x), Arg::N(k.into())]);
            m.case("add_nx1", 64 * n, vec![au(&acc), Arg::N(k.into())]);
            if n > 0 && r.chance(1, 8) {
                let sl = r.below(n);
                let short = gen::slice(&mut r, sl);
                m.case("adc_sbb_short_rhs", 64 * n, vec![au(&acc), au(&short), Arg::N(cin.into())]);
            }
            m.case("adc_n", 64 * n, vec![au(&acc), au(&x), Arg::N(cin.into())]);
            m.case("sbb_n", 64 * n, vec![au(&acc), au(&x), Arg::N(cin.into())]);
            // compare: equal, differing in one limb, hostile
            let mut z = x.clone();
            if n > 0 && r.bool() {
                let j = r.below(n);
                z[j] = z[j].wrapping_add(if r.bool() { 1 } else { u64::MAX });
            }
            m.case("cmp", 64 * n, vec![au(&x), au(&z)]);
            m.case("cmp", 64 * n, vec![au(&x), au(&y)]);
            let s = r.below(64);
            m.case("shift_left_small", 64 * n, vec![au(&acc), an(s)]);
            m.case("shift_right_small", 64 * n, vec![au(&acc), an(s)]);
        }
    }
    // every shift amount 0..64 on fixed patterns
    for n in 0..=4usize {
        for s in 0..64usize {
            for pat in [vec![u64::MAX; n], vec![1; n], vec![1 << 63; n], vec![0x8000_0000_0000_0001; n]] {
                m.case("shift_left_small", 64 * n, vec![au(&pat), an(s)]);
                m.case("shift_right_small", 64 * n, vec![au(&pat), an(s)]);
            }
        }
    }
    // ---- single-word helpers
    let mut r = m.stream("c15.words", 0);
    for i in 0..m.iters(30_000) {
        if i % 1024 == 0 && m.time_up() {
            break;
        }
        let (x, y) = (word(&mut r), word(&mut r));
        let c = match r.below(4) {
            0 => 0u64,
            1 | 2 => 1,
            _ => word(&mut r),
        };
        m.case("adc", 64, vec![Arg::N(x.into()), Arg::N(y.into()), Arg::N(c.into())]);
        m.case("sbb", 64, vec![Arg::N(x.into()), Arg::N(y.into()), Arg::N((c & 1).into())]);
        m.case("carrying_add", 64, vec![Arg::N(x.into()), Arg::N(y.into()), Arg::N((c & 1).into())]);
        m.case("borrowing_sub", 64, vec![Arg::N(x.into()), Arg::N(y.into()), Arg::N((c & 1).into())]);
    }
}

fn main() {
    let mut m = Mon::new("C15", dispatch);
    m.use_hooks = true;
    if !m.replay_if_requested() {
        loop {
            workload(&mut m);
            if !m.another_light_pass() {
                break;
            }
        }
    }
    m.finish();
}
