//! C12 workload (under construction).
fn main() {}
