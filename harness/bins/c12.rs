//! C12 — gcd, lcm, extended gcd (Bezout identity modulo 2^BITS) and the
//! Lehmer update matrices (full and prefix contracts) vs Euclid in BigUint.

use num_bigint::{BigInt, BigUint};
use num_traits::{One, Signed, Zero};
use ruint::{algorithms::LehmerMatrix, Uint};
use vmon::{au, big, gcdgen, gen, rng::Rng, uint, Arg, Mon};

vmon::widths!(exec; 0, 1, 2, 3, 7, 8, 31, 32, 60, 63, 64, 65, 100, 127, 128, 129, 160, 192, 193,
    250, 255, 256, 257, 320, 384, 512, 521, 768, 1024, 2048);

/// Exact image of (a, b) under the matrix with its implicit sign pattern.
fn apply_exact(mx: &LehmerMatrix, a: &BigUint, b: &BigUint) -> (BigInt, BigInt) {
    let (a, b) = (BigInt::from(a.clone()), BigInt::from(b.clone()));
    let (m0, m1, m2, m3) = (BigInt::from(mx.0), BigInt::from(mx.1), BigInt::from(mx.2), BigInt::from(mx.3));
    if mx.4 {
        (&m0 * &a - &m1 * &b, &m3 * &b - &m2 * &a)
    } else {
        (&m1 * &b - &m0 * &a, &m2 * &a - &m3 * &b)
    }
}

/// The documented contract of a Lehmer update matrix for a >= b: identity, or
/// (a, b) -> (c, d) with c >= d >= 0, d < b and gcd(c, d) = gcd(a, b).
fn judge_matrix(m: &mut Mon, kind: &str, mx: &LehmerMatrix, a: &BigUint, b: &BigUint) -> Option<(BigUint, BigUint)> {
    if *mx == LehmerMatrix::IDENTITY {
        m.note_add("matrices_identity", 1);
        return None;
    }
    m.note_add("matrices_nontrivial", 1);
    let (c, d) = apply_exact(mx, a, b);
    let desc = || format!("{mx:?} -> c={c} d={d}");
    if d.is_negative() || c < d {
        m.fail(&format!("{kind}.order"), "c >= d >= 0", &desc());
        return None;
    }
    let (c, d) = (c.to_biguint().unwrap(), d.to_biguint().unwrap());
    if !(d < *b) {
        m.fail(&format!("{kind}.progress"), &format!("d < b = {}", big::bhex(b)), &desc());
    }
    if big::gcd(&c, &d) != big::gcd(a, b) {
        m.fail(&format!("{kind}.gcd"), &format!("gcd(c,d) = gcd(a,b) = {}", big::bhex(&big::gcd(a, b))), &desc());
    }
    Some((c, d))
}

fn u128_of(v: &BigUint) -> u128 {
    v.iter_u64_digits().enumerate().map(|(i, d)| u128::from(d) << (64 * i)).sum()
}

fn exec<const B: usize, const L: usize>(m: &mut Mon, op: &str, a: &[Arg]) {
    match op {
        "gcd" => {
            let (x, y): (Uint<B, L>, Uint<B, L>) = (uint(a[0].u()), uint(a[1].u()));
            let (ba, bb) = (big::big(a[0].u()), big::big(a[1].u()));
            let g = big::gcd(&ba, &bb);
            let eg = big::limbs(&g, L);
            let two = BigUint::from(2u8);
            m.nontrivial(ba >= two && bb >= two);
            m.obs(|| format!("gcd={}", big::bhex(&g)));
            if let Some(v) = m.must_in("gcd", || x.gcd(y)) {
                m.eq_uint("gcd", &v, &eg);
            }
            if let Some(v) = m.must_in("algorithms::gcd", || ruint::algorithms::gcd(x, y)) {
                m.eq_uint("algorithms::gcd", &v, &eg);
            }
            // lcm
            let el: Option<BigUint> = if ba.is_zero() || bb.is_zero() {
                Some(BigUint::zero())
            } else {
                let l = &ba * &bb / &g;
                if big::fits(&l, B) {
                    Some(l)
                } else {
                    None
                }
            };
            if let Some(v) = m.must_in("lcm", || x.lcm(y)) {
                match (&v, &el) {
                    (Some(v), Some(l)) => {
                        m.eq_uint("lcm.value", v, &big::limbs(l, L));
                    }
                    (None, None) => {}
                    _ => m.fail("lcm.option", &format!("{:?}", el.as_ref().map(big::bhex)), &format!("{v:?}")),
                }
            }
            // extended gcd: a*x - b*y = g if sign else b*y - a*x = g, modulo 2^BITS
            if let Some((vg, vx, vy, sign)) = m.must_in("gcd_extended", || x.gcd_extended(y)) {
                m.eq_uint("gcd_extended.gcd", &vg, &eg);
                m.canonical(&vx);
                m.canonical(&vy);
                let md = big::p2(B);
                let ax = (&ba * big::big(vx.as_limbs())) % &md;
                let by = (&bb * big::big(vy.as_limbs())) % &md;
                let lhs = if sign { (&md + &ax - &by) % &md } else { (&md + &by - &ax) % &md };
                let want = &g % &md;
                m.check(lhs == want, "gcd_extended.bezout", || format!("g = {}", big::bhex(&want)), || {
                    format!("x={} y={} sign={sign} combination={}", big::hex(vx.as_limbs()), big::hex(vy.as_limbs()), big::bhex(&lhs))
                });
            }
        }
        "matrix" => {
            // a >= b
            let (x, y): (Uint<B, L>, Uint<B, L>) = (uint(a[0].u()), uint(a[1].u()));
            let (ba, bb) = (big::big(a[0].u()), big::big(a[1].u()));
            m.nontrivial(bb >= BigUint::from(2u8));
            if let Some(mx) = m.must_in("LehmerMatrix::from", || LehmerMatrix::from(x, y)) {
                m.obs(|| format!("{mx:?}"));
                if let Some((c, d)) = judge_matrix(m, "matrix.from", &mx, &ba, &bb) {
                    // apply() must produce exactly that image
                    if let Some((vc, vd)) = m.must_in("LehmerMatrix::apply", || {
                        let (mut p, mut q) = (x, y);
                        mx.apply(&mut p, &mut q);
                        (p, q)
                    }) {
                        m.eq_uint("matrix.apply.c", &vc, &big::limbs(&c, L));
                        m.eq_uint("matrix.apply.d", &vd, &big::limbs(&d, L));
                    }
                }
            }
        }
        _ => panic!("harness: unknown op {op}"),
    }
}

/// Prefix-level entry points; the extension arithmetic is done at 320 bits.
fn exec_prefix(m: &mut Mon, op: &str, a: &[Arg]) {
    type W = Uint<320, 5>;
    match op {
        "from_u64" => {
            let (r0, r1) = (a[0].n() as u64, a[1].n() as u64);
            m.nontrivial(r1 >= 2);
            if let Some(mx) = m.must_in("LehmerMatrix::from_u64", || LehmerMatrix::from_u64(r0, r1)) {
                let (ba, bb) = (BigUint::from(r0), BigUint::from(r1));
                if let Some((c, d)) = judge_matrix(m, "from_u64", &mx, &ba, &bb) {
                    // full Euclid: the image is (gcd, 0)
                    m.check(d.is_zero() && c == big::gcd(&ba, &bb), "from_u64.complete", || "(gcd, 0)".into(), || format!("({c}, {d})"));
                    if let Some((vc, vd)) = m.must_in("apply_u128", || mx.apply_u128(u128::from(r0), u128::from(r1))) {
                        m.eq("from_u64.apply_u128", &(BigUint::from(vc), BigUint::from(vd)), &(c, d));
                    }
                }
            }
        }
        "prefix64" | "prefix128" => {
            // args: prefix a0, prefix a1, extension bits k, tails x, y (< 2^k)
            let (p0, p1) = (a[0].n(), a[1].n());
            let k = a[2].us();
            let (tx, ty) = (big::big(a[3].u()), big::big(a[4].u()));
            m.nontrivial(p1 >= 2);
            let mx = if op == "prefix64" {
                m.must_in("LehmerMatrix::from_u64_prefix", || LehmerMatrix::from_u64_prefix(p0 as u64, p1 as u64))
            } else {
                m.must_in("LehmerMatrix::from_u128_prefix", || LehmerMatrix::from_u128_prefix(p0, p1))
            };
            let Some(mx) = mx else { return };
            m.obs(|| format!("{mx:?} k={k}"));
            // the matrix must be valid for the prefix itself and for every extension
            let (b0, b1) = (BigUint::from(p0), BigUint::from(p1));
            judge_matrix(m, &format!("{op}.self"), &mx, &b0, &b1);
            let ea = (&b0 << k) + &tx;
            let eb = (&b1 << k) + &ty;
            if ea >= eb {
                if let Some((c, d)) = judge_matrix(m, &format!("{op}.extension"), &mx, &ea, &eb) {
                    let (ua, ub): (W, W) = (uint(&big::limbs(&ea, 5)), uint(&big::limbs(&eb, 5)));
                    if let Some((vc, vd)) = m.must_in("LehmerMatrix::apply", || {
                        let (mut p, mut q) = (ua, ub);
                        mx.apply(&mut p, &mut q);
                        (p, q)
                    }) {
                        m.eq_uint("prefix.apply.c", &vc, &big::limbs(&c, 5));
                        m.eq_uint("prefix.apply.d", &vd, &big::limbs(&d, 5));
                    }
                    if ea.bits() <= 128 {
                        if let Some((vc, vd)) = m.must_in("apply_u128", || mx.apply_u128(u128_of(&ea), u128_of(&eb))) {
                            m.eq("prefix.apply_u128", &(BigUint::from(vc), BigUint::from(vd)), &(c, d));
                        }
                    }
                }
            }
        }
        _ => panic!("harness: unknown op {op}"),
    }
}

fn dispatch_all(m: &mut Mon, bits: usize, op: &str, a: &[Arg]) {
    match op {
        "gcd" | "matrix" => dispatch(m, bits, op, a),
        _ => exec_prefix(m, op, a),
    }
}

fn both_orders(m: &mut Mon, bits: usize, a: &BigUint, b: &BigUint) {
    let l = gen::nlimbs(bits);
    let (la, lb) = (big::limbs(a, l), big::limbs(b, l));
    m.case("gcd", bits, vec![au(&la), au(&lb)]);
    m.case("gcd", bits, vec![au(&lb), au(&la)]);
    if a >= b {
        m.case("matrix", bits, vec![au(&la), au(&lb)]);
    } else {
        m.case("matrix", bits, vec![au(&lb), au(&la)]);
    }
}

fn tails(r: &mut Rng, k: usize) -> Vec<u64> {
    if k == 0 {
        return vec![];
    }
    match r.below(4) {
        0 => gen::zero(k),
        1 => gen::max(k),
        _ => gen::uniform(r, k),
    }
}

fn workload_prefix(m: &mut Mon) {
    let mut r = m.stream("c12.prefix", 0);
    for i in 0..m.iters(40_000) {
        if i % 512 == 0 && m.time_up() {
            break;
        }
        // prefix pair from a known quotient sequence, normalised so that a0 has its top bit set
        let pat = r.below(10);
        let (ga, gb, _) = gcdgen::pair(&mut r, 64, pat);
        let mut a0 = u128_of(&ga) as u64;
        let mut a1 = u128_of(&gb) as u64;
        match r.below(6) {
            0 => {
                a0 = gen::alpha_limb(&mut r);
                a1 = gen::alpha_limb(&mut r);
            }
            1 => {
                a1 = a0.wrapping_sub(r.below(3) as u64);
            }
            2 => a1 >>= r.below(40),
            _ => {}
        }
        if a0 == 0 {
            a0 = 1;
        }
        let s = a0.leading_zeros();
        a0 <<= s;
        a1 = (a1 << s).min(a0);
        if a1 > a0 {
            std::mem::swap(&mut a0, &mut a1);
        }
        m.case("from_u64", 64, vec![Arg::N(a0.into()), Arg::N(a1.into())]);
        let (u0, u1) = (gen::alpha_limb(&mut r), gen::alpha_limb(&mut r));
        m.case("from_u64", 64, vec![Arg::N(u0.max(u1).into()), Arg::N(u0.min(u1).into())]);
        let k = match r.below(5) {
            0 => 0,
            1 => 64,
            2 => 192,
            _ => r.range(0, 192),
        };
        let (tx, ty) = (tails(&mut r, k), tails(&mut r, k));
        m.case("prefix64", 320, vec![Arg::N(a0.into()), Arg::N(a1.into()), Arg::N(k as u128), au(&tx), au(&ty)]);
        // 128-bit prefix: same high words with hostile low words
        let r0 = (u128::from(a0 >> r.below(64)) << 64) | u128::from(gen::alpha_limb(&mut r));
        let r1 = ((u128::from(a1) << 64) | u128::from(gen::alpha_limb(&mut r))) >> (128 - (128 - r0.leading_zeros())).min(127);
        let (r0, r1) = if r0 >= r1 { (r0, r1) } else { (r1, r0) };
        if r0 > 0 {
            let k = r.range(0, 128);
            let (tx, ty) = (tails(&mut r, k), tails(&mut r, k));
            m.case("prefix128", 320, vec![Arg::N(r0), Arg::N(r1), Arg::N(k as u128), au(&tx), au(&ty)]);
        }
    }
    // leading words whose remainder sequence lands exactly on (or next to) the limits the single-word loops test
    let mut r = m.stream("c12.limits", 0);
    for i in 0..m.iters(6_000) {
        if i % 512 == 0 && m.time_up() {
            break;
        }
        let t = match i % 12 {
            0 | 1 | 2 | 3 => 1u64 << 32,
            4 => (1 << 32) - 1,
            5 => (1 << 32) + 1,
            6 => 1 << 31,
            7 => 1 << 33,
            8 => (1 << 16) + r.below(3) as u64 - 1,
            9 => 1 + r.below(3) as u64,
            10 => (1u64 << r.range(2, 61)) + r.below(3) as u64 - 1,
            _ => gen::alpha_limb(&mut r) >> r.range(2, 40),
        };
        let (a0, a1) = gcdgen::words_through(&mut r, t);
        m.case("from_u64", 64, vec![Arg::N(a0.into()), Arg::N(a1.into())]);
        let k = *r.pick(&[0usize, 0, 1, 63, 64, 64, 65, 128, 192]);
        let (tx, ty) = (tails(&mut r, k), tails(&mut r, k));
        m.case("prefix64", 320, vec![Arg::N(a0.into()), Arg::N(a1.into()), Arg::N(k as u128), au(&tx), au(&ty)]);
    }
    for (a0, a1) in [(1u64 << 63, 0u64), (1 << 63, 1), (u64::MAX, u64::MAX), (u64::MAX, u64::MAX - 1), (1 << 63, (1 << 63) - 1),
                     (u64::MAX, 1 << 32), (u64::MAX, (1 << 32) - 1), (1 << 63, 1 << 32), (u64::MAX, 1 << 63)] {
        for k in [0usize, 1, 64, 128, 192] {
            m.case("prefix64", 320, vec![Arg::N(a0.into()), Arg::N(a1.into()), Arg::N(k as u128), au(&gen::max(k)), au(&gen::zero(k))]);
            m.case("prefix64", 320, vec![Arg::N(a0.into()), Arg::N(a1.into()), Arg::N(k as u128), au(&gen::zero(k)), au(&gen::zero(k))]);
        }
        m.case("from_u64", 64, vec![Arg::N(a0.into()), Arg::N(a1.into())]);
    }
}

fn workload(m: &mut Mon, bits: usize) {
    if bits <= 4 {
        for a in 0..(1u64 << bits) {
            for b in 0..(1u64 << bits) {
                if !m.keep() {
                    continue;
                }
                both_orders(m, bits, &BigUint::from(a), &BigUint::from(b));
            }
        }
        if !m.is_light() {
            m.mark_exhaustive(format!("all (a, b) pairs at BITS={bits}"));
        }
    }
    if bits == 0 {
        return;
    }
    // Interpreter lanes: operands that fill the type (bit length = BITS, so that the Lehmer prefix starts in the top
    // limb), against a neighbour, a half-length and a one-limb partner, unthinned (seeded change C12-J: a 128-bit
    // prefix read through a raw pointer, one limb past the array when bit_len = BITS = 64 * LIMBS).
    if m.is_light() {
        let mx = gen::max(bits);
        let mut partners = vec![gen::pow2(bits - 1, bits), gen::ones(bits / 2 + 1, bits), gen::small(1, bits)];
        let mut nb = mx.clone();
        nb[0] -= 1;
        partners.push(nb);
        for (k, b) in partners.iter().enumerate() {
            if m.light_owns(k as u64, "gcd") {
                m.case_always("gcd", bits, vec![au(&mx), au(b)]);
                m.case_always("gcd", bits, vec![au(b), au(&mx)]);
            }
        }
    }
    let bd = gen::boundary(bits);
    let mut r = m.stream("c12.directed", bits);
    for a in &bd {
        if !m.keep() {
            continue;
        }
        let ba = big::big(a);
        let mut partners = vec![ba.clone(), BigUint::zero(), BigUint::one(), big::big(&gen::max(bits))];
        if !ba.is_zero() {
            partners.push(&ba - 1u8);
        }
        if big::fits(&(&ba + 1u8), bits) {
            partners.push(&ba + 1u8);
        }
        for _ in 0..4 {
            partners.push(big::big(&r.pick(&bd)[..]));
        }
        for b in &partners {
            both_orders(m, bits, &ba, b);
        }
    }
    // quotient-sequence pairs, every pattern
    let mut r = m.stream("c12.sequences", bits);
    let reps = m.iters(if bits <= 256 { 300 } else if bits <= 1024 { 80 } else { 20 });
    for pat in 0..10 {
        for i in 0..reps {
            if i % 32 == 0 && m.time_up() {
                return;
            }
            if !m.keep() {
                continue;
            }
            let (a, b, _) = gcdgen::pair(&mut r, bits, pat);
            both_orders(m, bits, &a, &b);
            // shared leading 64 / 128 bits: b = a - small
            if i % 4 == 0 && !a.is_zero() {
                let d = BigUint::from(gen::alpha_limb(&mut r)) % &a;
                both_orders(m, bits, &a, &(&a - d));
            }
        }
    }
    // operands whose leading 64 bits are words with a remainder exactly on the 2^32 limit
    if bits >= 65 {
        let mut r = m.stream("c12.limits", bits);
        for i in 0..m.iters(if bits <= 512 { 400 } else { 60 }) {
            if i % 32 == 0 && m.time_up() {
                return;
            }
            if !m.keep() {
                continue;
            }
            let t = match i % 4 {
                0 | 1 => 1u64 << 32,
                2 => (1 << 32) - 1 + r.below(3) as u64,
                _ => 1 << r.range(20, 50),
            };
            let (a0, a1) = gcdgen::words_through(&mut r, t);
            let sh = r.range(1, bits - 64);
            let low = |r: &mut Rng| if sh == 0 { BigUint::zero() } else { big::big(&gen::hostile(r, sh)) };
            let a = (BigUint::from(a0) << sh) | low(&mut r);
            let b = (BigUint::from(a1) << sh) | low(&mut r);
            both_orders(m, bits, &a, &b);
        }
    }
    // hostile random
    let mut r = m.stream("c12.random", bits);
    for i in 0..m.iters(if bits <= 256 { 1500 } else { 300 }) {
        if i % 64 == 0 && m.time_up() {
            return;
        }
        let (a, b) = (big::big(&gen::hostile(&mut r, bits)), big::big(&gen::hostile(&mut r, bits)));
        both_orders(m, bits, &a, &b);
    }
}

fn main() {
    let mut m = Mon::new("C12", dispatch_all);
    m.use_hooks = true;
    if !m.replay_if_requested() {
        loop {
            if m.width_enabled(320) {
                workload_prefix(&mut m);
            }
            for &bits in WIDTHS {
                if m.width_enabled(bits) {
                    workload(&mut m, bits);
                }
            }
            if !m.another_light_pass() {
                break;
            }
        }
    }
    m.finish();
}
