//! C13 — pow (value and overflow flag), integer logarithms (incl. widths where
//! 2 or 10 do not fit) and integer roots (value and bounded termination).

use num_bigint::BigUint;
use num_traits::{One, Zero};
use ruint::Uint;
use vmon::{an, au, big, gen, rng::Rng, uint, Arg, Mon};

vmon::widths!(exec; 0, 1, 2, 3, 4, 7, 8, 31, 32, 60, 63, 64, 65, 100, 127, 128, 129, 192, 193,
    250, 255, 256, 257, 320, 384, 512, 521, 1024, 2048);

/// Does a^e reach 2^bits? Decided by bit-length bounds, exact power otherwise.
fn pow_overflows(a: &BigUint, e: &BigUint, bits: usize) -> bool {
    if e.is_zero() {
        return bits == 0; // a^0 = 1
    }
    if a.is_zero() {
        return false;
    }
    if a.is_one() {
        return bits == 0;
    }
    // a >= 2
    let bl = a.bits() as usize;
    if e.bits() > 40 {
        return true; // exponent beyond 2^40 with a >= 2
    }
    let ev = e.iter_u64_digits().next().unwrap_or(0) as usize;
    if (bl - 1).saturating_mul(ev) >= bits {
        return true;
    }
    // now bl * ev < bits + ev <= 2 * bits: exact power is cheap
    !big::fits(&a.pow(ev as u32), bits)
}

fn exec<const B: usize, const L: usize>(m: &mut Mon, op: &str, a: &[Arg]) {
    let two = BigUint::from(2u8);
    match op {
        "pow" => {
            let (x, e): (Uint<B, L>, Uint<B, L>) = (uint(a[0].u()), uint(a[1].u()));
            let (bx, be) = (big::big(a[0].u()), big::big(a[1].u()));
            m.nontrivial(bx >= two && be >= two);
            let w = if B == 0 { vec![] } else { big::limbs(&bx.modpow(&be, &big::p2(B)), L) };
            let ovf = if B == 0 { false } else { pow_overflows(&bx, &be, B) };
            m.obs(|| format!("wrapped={} overflow={ovf}", big::hex(&w)));
            if let Some(v) = m.must_in("pow", || x.pow(e)) {
                m.eq_uint("pow", &v, &w);
            }
            if let Some(v) = m.must_in("wrapping_pow", || x.wrapping_pow(e)) {
                m.eq_uint("wrapping_pow", &v, &w);
            }
            if let Some((v, f)) = m.must_in("overflowing_pow", || x.overflowing_pow(e)) {
                m.eq_uint("overflowing_pow.value", &v, &w);
                m.eq("overflowing_pow.flag", &f, &ovf);
            }
            if let Some(v) = m.must_in("checked_pow", || x.checked_pow(e)) {
                match v {
                    Some(v) => {
                        if m.eq("checked_pow.some", &true, &!ovf) {
                            m.eq_uint("checked_pow.value", &v, &w);
                        }
                    }
                    None => {
                        m.eq("checked_pow.none", &true, &ovf);
                    }
                }
            }
            if let Some(v) = m.must_in("saturating_pow", || x.saturating_pow(e)) {
                m.eq_uint("saturating_pow", &v, &if ovf { gen::max(B) } else { w.clone() });
            }
        }
        "log" => {
            let (x, base): (Uint<B, L>, Uint<B, L>) = (uint(a[0].u()), uint(a[1].u()));
            let (bv, bb) = (big::big(a[0].u()), big::big(a[1].u()));
            let defined = !bv.is_zero() && bb >= two;
            m.nontrivial(bv >= two && bb >= two);
            let judge = |m: &mut Mon, kind: &str, e: usize| {
                // e = floor(log_b v)  <=>  b^e <= v < b^(e+1)
                if e > B + 1 {
                    m.fail(kind, "a logarithm below BITS", &format!("{e}"));
                    return;
                }
                let lo = bb.pow(e as u32);
                let ok = lo <= bv && &lo * &bb > bv;
                m.check(ok, kind, || format!("floor(log_{}({}))", big::bhex(&bb), big::bhex(&bv)), || format!("{e}"));
            };
            if let Some(r) = m.must_in("checked_log", || x.checked_log(base)) {
                match r {
                    Some(e) => {
                        if m.eq("checked_log.some", &true, &defined) {
                            judge(m, "checked_log.value", e);
                            m.obs(|| format!("log={e}"));
                        }
                    }
                    None => {
                        m.eq("checked_log.none", &true, &!defined);
                    }
                }
            }
            if defined {
                if let Some(e) = m.must_in("log", || x.log(base)) {
                    judge(m, "log.value", e);
                }
            } else {
                m.must_panic(|| x.log(base), "value 0 or base < 2");
            }
        }
        "log2_10" => {
            let x: Uint<B, L> = uint(a[0].u());
            let bv = big::big(a[0].u());
            m.nontrivial(bv >= two);
            let defined = !bv.is_zero();
            let e2 = if defined { bv.bits() as usize - 1 } else { 0 };
            let e10 = if defined { bv.to_str_radix(10).len() - 1 } else { 0 };
            m.obs(|| format!("log2={e2} log10={e10}"));
            if let Some(r) = m.must_in("checked_log2", || x.checked_log2()) {
                m.eq("checked_log2", &r, &if defined { Some(e2) } else { None });
            }
            if let Some(r) = m.must_in("checked_log10", || x.checked_log10()) {
                m.eq("checked_log10", &r, &if defined { Some(e10) } else { None });
            }
            if defined {
                if let Some(r) = m.must_in("log2", || x.log2()) {
                    m.eq("log2", &r, &e2);
                }
                if let Some(r) = m.must_in("log10", || x.log10()) {
                    m.eq("log10", &r, &e10);
                }
            } else {
                m.must_panic(|| x.log2(), "value 0");
                m.must_panic(|| x.log10(), "value 0");
            }
        }
        "root" => {
            let x: Uint<B, L> = uint(a[0].u());
            let bv = big::big(a[0].u());
            let d = a[1].us();
            m.nontrivial(bv >= two && d >= 2);
            if d == 0 {
                m.must_panic(|| x.root(d), "degree 0");
                return;
            }
            if let Some(v) = m.must_in("root", || x.root(d)) {
                m.canonical(&v);
                let r = big::big(v.as_limbs());
                // r = floor(v^(1/d))  <=>  r^d <= v < (r+1)^d
                let ok = if r.bits() as usize * d > B + d + 64 { false } else { r.pow(d as u32) <= bv && (&r + 1u8).pow(d as u32) > bv };
                m.check(ok, "root.value", || format!("floor({}^(1/{d}))", big::bhex(&bv)), || big::bhex(&r));
                m.obs(|| format!("root={}", big::bhex(&r)));
            }
        }
        _ => panic!("harness: unknown op {op}"),
    }
}

/// Bases for pow / log: 0, 1, 2, 3, 10, MAX, 2^k, 2^k +- 1, alphabet.
fn base(r: &mut Rng, bits: usize) -> Vec<u64> {
    match r.below(12) {
        0 => gen::small(r.below(4) as u64, bits),
        1 => gen::small(10, bits),
        2 => gen::max(bits),
        3 => gen::pow2(r.below(bits.max(1)), bits),
        4 => {
            let mut v = gen::pow2(r.below(bits.max(1)), bits);
            if !v.is_empty() {
                v[0] |= 1;
            }
            v
        }
        5 => gen::ones(r.range(1, bits.max(1)), bits),
        6 => gen::small(gen::alpha_limb(r), bits),
        7 => gen::small(2 + r.below(40) as u64, bits),
        8 => {
            let n = r.range(1, bits.max(1)).min(70);
            gen::with_bit_len(r, n, bits)
        }
        _ => gen::hostile(r, bits),
    }
}

fn fit(v: &BigUint, bits: usize) -> Option<Vec<u64>> {
    if big::fits(v, bits) {
        Some(big::limbs(v, gen::nlimbs(bits)))
    } else {
        None
    }
}

fn workload(m: &mut Mon, bits: usize) {
    if bits <= 4 {
        for a in 0..(1u64 << bits) {
            m.case("log2_10", bits, vec![au(&gen::small(a, bits))]);
            for b in 0..(1u64 << bits) {
                if !m.keep() {
                    continue;
                }
                m.case("pow", bits, vec![au(&gen::small(a, bits)), au(&gen::small(b, bits))]);
                m.case("log", bits, vec![au(&gen::small(a, bits)), au(&gen::small(b, bits))]);
            }
            for d in 0..=bits + 2 {
                m.case("root", bits, vec![au(&gen::small(a, bits)), an(d)]);
            }
        }
        if !m.is_light() {
            m.mark_exhaustive(format!("all (base, exponent), (value, base), (value, degree 0..=BITS+2) at BITS={bits}"));
        }
    }
    if bits == 0 {
        return;
    }
    let l = gen::nlimbs(bits);
    let bd = gen::boundary(bits);
    let mut r = m.stream("c13.directed", bits);
    // ---- pow: exponents around floor(BITS / log2 b), 0, 1, full width
    for _ in 0..m.iters(if bits <= 512 { 400 } else { 120 }) {
        if !m.keep() {
            continue;
        }
        let b = base(&mut r, bits);
        let bb = big::big(&b);
        let bl = (bb.bits() as usize).max(1);
        let crit = bits / bl.saturating_sub(1).max(1);
        let crit2 = bits / bl;
        for e in [0usize, 1, 2, 3, crit.saturating_sub(1), crit, crit + 1, crit2.saturating_sub(1), crit2, crit2 + 1, bits - 1, bits, bits + 1] {
            m.case("pow", bits, vec![au(&b), au(&gen::small(e as u64, bits))]);
        }
        // exponents around the native word sizes: anything that multiplies or adds the exponent in a machine
        // integer overflows there
        for e in [1u64 << 31, (1 << 32) - 1, 1 << 32, 1 << 62, (1 << 63) - 1, 1 << 63, (1 << 63) + 1, u64::MAX / 7, u64::MAX / 3, u64::MAX - 1, u64::MAX] {
            if bits >= 64 || e >> bits == 0 {
                m.case("pow", bits, vec![au(&b), au(&gen::small(e, bits))]);
            }
        }
        if bits > 64 {
            let mut e = gen::zero(bits);
            e[1] = 1;
            m.case("pow", bits, vec![au(&b), au(&e)]);
            e[0] = 1;
            m.case("pow", bits, vec![au(&b), au(&e)]);
        }
        m.case("pow", bits, vec![au(&b), au(&gen::hostile(&mut r, bits))]);
        m.case("pow", bits, vec![au(&b), au(&gen::max(bits))]);
        m.case("pow", bits, vec![au(&b), au(&gen::pow2(r.below(bits), bits))]);
    }
    // ---- log: perfect powers b^e and neighbours, boundary values, every small base
    for _ in 0..m.iters(if bits <= 512 { 300 } else { 80 }) {
        if !m.keep() {
            continue;
        }
        let b = base(&mut r, bits);
        let bb = big::big(&b);
        m.case("log", bits, vec![au(&r.pick(&bd)[..]), au(&b)]);
        m.case("log", bits, vec![au(&gen::hostile(&mut r, bits)), au(&b)]);
        if bb >= BigUint::from(2u8) {
            let emax = (bits as f64 / (bb.bits() as f64 - 0.99)).ceil() as usize + 1;
            let e = r.range(0, emax.min(4 * bits));
            let p = bb.pow(e as u32);
            for d in [-1i32, 0, 1] {
                let v = if d < 0 { if p.is_zero() { p.clone() } else { &p - 1u8 } } else { &p + d as u32 };
                if let Some(v) = fit(&v, bits) {
                    m.case("log", bits, vec![au(&v), au(&b)]);
                }
            }
        }
    }
    // the largest power of each base that fits, and its neighbours: the estimate is most likely to be
    // off exactly there (the next power overflows)
    for bsmall in (2u64..=67).chain([100, 109, 255, 256, 1000, 65535, 65536, 1 << 32, u64::MAX]) {
        if !m.keep() {
            continue;
        }
        let bb = BigUint::from(bsmall);
        if !big::fits(&bb, bits) {
            continue;
        }
        let mut p = BigUint::one();
        while big::fits(&(&p * &bb), bits) {
            p *= &bb;
        }
        let b = big::limbs(&bb, l);
        for v in [&p - 1u8, p.clone(), &p + 1u8, &p / &bb, (&p / &bb) - BigUint::from(u8::from(p > bb))] {
            if let Some(v) = fit(&v, bits) {
                m.case("log", bits, vec![au(&v), au(&b)]);
            }
        }
    }
    for v in &bd {
        if !m.keep() {
            continue;
        }
        m.case("log2_10", bits, vec![au(v)]);
        for b in [0u64, 1, 2, 3, 10, 16, 255, 256] {
            m.case("log", bits, vec![au(v), au(&gen::small(b, bits))]);
        }
        m.case("log", bits, vec![au(v), au(&gen::max(bits))]);
        m.case("log", bits, vec![au(v), au(v)]);
    }
    // every power of ten (log10, and log with base 10) and every power of three and seven that fits, with both
    // neighbours: an estimate that is off by one is off on a thin band next to a power, at a few exponents only
    for bsmall in [10u32, 3, 7] {
        let b = gen::small(u64::from(bsmall), bits);
        let mut p = BigUint::one();
        while big::fits(&p, bits) {
            if m.keep() {
                for d in [-1i32, 0, 1] {
                    let v = if d < 0 { if p.is_one() { BigUint::zero() } else { &p - 1u8 } } else { &p + d as u32 };
                    if let Some(v) = fit(&v, bits) {
                        if bsmall == 10 {
                            m.case("log2_10", bits, vec![au(&v)]);
                        }
                        if big::fits(&BigUint::from(bsmall), bits) {
                            m.case("log", bits, vec![au(&v), au(&b)]);
                        }
                    }
                }
            }
            p *= bsmall;
        }
    }
    // all-ones values of every bit length (the top of each band [2^(L-1), 2^L))
    for len in 1..=bits {
        if bits > 1024 && len % 3 != 0 && len + 70 < bits {
            continue;
        }
        if !m.keep() {
            continue;
        }
        m.case("log2_10", bits, vec![au(&gen::ones(len, bits))]);
    }
    // ---- root: every degree 0..=BITS+2 on boundary-ish values, perfect powers k^d and neighbours
    let degrees: Vec<usize> = if bits <= 257 { (0..=bits + 2).collect() } else {
        let mut d: Vec<usize> = (0..=40).collect();
        d.extend([63, 64, 65, 100, 127, 128, 129, 196, 255, 256, 257, bits / 2, bits - 1, bits, bits + 1, bits + 2]);
        d.sort_unstable();
        d.dedup();
        d
    };
    let root_values: Vec<Vec<u64>> = vec![gen::max(bits), gen::pow2(bits - 1, bits), gen::ones(bits / 2 + 1, bits), gen::small(2, bits),
                                          gen::alphabet(&mut r, bits), gen::uniform(&mut r, bits)];
    for &d in &degrees {
        if !m.keep() {
            continue;
        }
        for v in &root_values {
            m.case("root", bits, vec![au(v), an(d)]);
        }
        if d >= 1 && d <= 4 * bits {
            for _ in 0..m.iters(2) {
                // k^d and neighbours, k chosen so that k^d has about `bits` bits
                let kb = (bits / d).max(1);
                let kbl = r.range(1, kb).min(kb);
                let k = big::big(&gen::with_bit_len(&mut r, kbl, kb.max(1)));
                let p = k.pow(d as u32);
                for dd in [-1i32, 0, 1] {
                    let v = if dd < 0 { if p.is_zero() { p.clone() } else { &p - 1u8 } } else { &p + dd as u32 };
                    if let Some(v) = fit(&v, bits) {
                        m.case("root", bits, vec![au(&v), an(d)]);
                    }
                }
            }
        }
        if m.time_up() {
            return;
        }
    }
    if bits <= 257 && !m.is_light() {
        m.mark_exhaustive(format!("BITS={bits}: every root degree in 0..=BITS+2 (values: MAX, 2^(BITS-1), perfect powers +-1, sampled)"));
    }
    // documented slow-convergence example and values whose top 64 bits sit on f64 rounding boundaries
    if bits == 256 {
        let v = BigUint::parse_bytes(b"215f07147d573ef203e1f268ab1516d3f294619db820c5dfd0b334e4d06320b7", 16).unwrap();
        m.case("root", bits, vec![au(&big::limbs(&v, l)), an(196)]);
    }
    let mut r = m.stream("c13.random", bits);
    for i in 0..m.iters(if bits <= 256 { 2500 } else if bits <= 1024 { 700 } else { 150 }) {
        if i % 64 == 0 && m.time_up() {
            return;
        }
        let v = match r.below(4) {
            0 => {
                // 53/54-bit head followed by ones or zeros
                let mut v = gen::with_bit_len(&mut r, bits, bits);
                let keep = r.range(52, 55).min(bits);
                let low = bits - keep;
                let fill = r.bool();
                for j in 0..low {
                    if fill {
                        v[j / 64] |= 1 << (j % 64);
                    } else {
                        v[j / 64] &= !(1 << (j % 64));
                    }
                }
                v
            }
            _ => gen::hostile(&mut r, bits),
        };
        let d = match r.below(4) {
            0 => r.range(1, 8),
            1 => r.range(1, bits + 2),
            2 => r.range(bits / 2, bits + 2),
            _ => r.range(2, 70),
        };
        m.case("root", bits, vec![au(&v), an(d)]);
        m.case("log2_10", bits, vec![au(&v)]);
        m.case("log", bits, vec![au(&v), au(&base(&mut r, bits))]);
        let b = base(&mut r, bits);
        let e = if r.bool() { gen::small(r.below(bits + 3) as u64, bits) } else { gen::hostile(&mut r, bits) };
        m.case("pow", bits, vec![au(&b), au(&e)]);
    }
}

fn main() {
    let mut m = Mon::new("C13", dispatch);
    m.use_hooks = true;
    if !m.replay_if_requested() {
        loop {
            for &bits in WIDTHS {
                if m.width_enabled(bits) {
                    workload(&mut m, bits);
                }
            }
            if !m.another_light_pass() {
                break;
            }
        }
    }
    m.finish();
    let _ = BigUint::zero();
}
