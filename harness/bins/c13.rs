//! C13 workload (under construction).
fn main() {}
