//! C08 workload (under construction).
fn main() {}
