//! C08 — byte encodings (fixed arrays, vectors, borrowed slices, trimmed forms,
//! copy-into-buffer forms) and the range-checking byte-slice decoders.

use ruint::Uint;
use vmon::{au, big, gen, uint, Arg, Mon};

macro_rules! widths3 {
    ($($b:literal),* $(,)?) => {
        pub const WIDTHS: &[usize] = &[$($b),*];
        pub fn dispatch(m: &mut Mon, bits: usize, op: &str, args: &[Arg]) {
            match bits {
                $($b => {
                    if op == "array_size" {
                        // arrays one byte longer, one byte shorter, a whole limb view, and a limb longer
                        array_size::<$b, { ($b + 63) / 64 }, { ($b + 7) / 8 + 1 }>(m, args);
                        array_size::<$b, { ($b + 63) / 64 }, { (($b + 7usize) / 8).saturating_sub(1) }>(m, args);
                        array_size::<$b, { ($b + 63) / 64 }, { 8 * (($b + 63) / 64) }>(m, args);
                        array_size::<$b, { ($b + 63) / 64 }, { ($b + 7) / 8 + 8 }>(m, args);
                    } else {
                        exec::<$b, { ($b + 63) / 64 }, { ($b + 7) / 8 }>(m, op, args)
                    }
                })*
                _ => panic!("harness: width {bits} not instantiated"),
            }
        }
    };
}
widths3!(0, 1, 7, 8, 9, 15, 16, 31, 32, 56, 57, 60, 63, 64, 65, 72, 100, 120, 124, 127, 128, 129, 188, 192,
    250, 255, 256, 257, 320, 384, 512, 521, 1024, 4096, 4160);

/// Little-endian base-256 digits of the value, exactly `n` bytes.
fn le_digits(limbs: &[u64], n: usize) -> Vec<u8> {
    let mut out = Vec::with_capacity(n);
    for i in 0..n {
        out.push((limbs[i / 8] >> (8 * (i % 8))) as u8);
    }
    out
}

fn trim_le(mut v: Vec<u8>) -> Vec<u8> {
    while v.last() == Some(&0) {
        v.pop();
    }
    v
}

/// Value denoted by a big-endian byte string, as (limbs for `bits`, fits).
fn denote_be(bytes: &[u8], bits: usize) -> (Vec<u64>, bool) {
    let v = num_bigint::BigUint::from_bytes_be(bytes);
    let fits = big::fits(&v, bits);
    (if fits { big::limbs(&v, gen::nlimbs(bits)) } else { vec![] }, fits)
}

/// The fixed-size array forms instantiated with an array length N that is not BYTES. The documented
/// behaviour is a panic; what may never happen is an array that is not the N-byte positional encoding of the
/// value (or a decoded value other than the one the array denotes), or a read outside the value.
fn array_size<const B: usize, const L: usize, const N: usize>(m: &mut Mon, a: &[Arg]) {
    let nb = (B + 7) / 8;
    if N == nb {
        return;
    }
    let limbs = a[0].u();
    let x: Uint<B, L> = uint(limbs);
    m.nontrivial(!gen::is_zero(limbs));
    let le_full = le_digits(limbs, nb);
    let fits_n = le_full.iter().skip(N).all(|b| *b == 0);
    let mut le_n = le_full.clone();
    le_n.resize(N, 0);
    let be_n: Vec<u8> = le_n.iter().rev().copied().collect();
    if let Ok(v) = m.call(|| x.to_le_bytes::<N>().to_vec()) {
        m.check(fits_n && v == le_n, "to_le_bytes.wrong-size", || format!("panic (array of {N} bytes, BYTES = {nb})"), || format!("{v:02x?}"));
    }
    if let Ok(v) = m.call(|| x.to_be_bytes::<N>().to_vec()) {
        m.check(fits_n && v == be_n, "to_be_bytes.wrong-size", || format!("panic (array of {N} bytes, BYTES = {nb})"), || format!("{v:02x?}"));
    }
    // decoding an N-byte array: the low bytes of the value, the rest zero, so the array always denotes a value that fits
    let mut arr = [0u8; N];
    for (d, s) in arr.iter_mut().zip(le_full.iter()) {
        *d = *s;
    }
    let mut want = limbs.to_vec();
    if N < nb {
        for (i, w) in want.iter_mut().enumerate() {
            for k in 0..8 {
                if 8 * i + k >= N {
                    *w &= !(0xffu64 << (8 * k));
                }
            }
        }
    }
    if let Ok(v) = m.call(|| Uint::<B, L>::from_le_bytes::<N>(arr)) {
        m.eq_uint("from_le_bytes.wrong-size", &v, &want);
    }
    let mut rev = arr;
    rev.reverse();
    if let Ok(v) = m.call(|| Uint::<B, L>::from_be_bytes::<N>(rev)) {
        m.eq_uint("from_be_bytes.wrong-size", &v, &want);
    }
}

fn exec<const B: usize, const L: usize, const NB: usize>(m: &mut Mon, op: &str, a: &[Arg]) {
    match op {
        "encode" => {
            let limbs = a[0].u();
            let x: Uint<B, L> = uint(limbs);
            let le = le_digits(limbs, NB);
            let be: Vec<u8> = le.iter().rev().copied().collect();
            let le_t = trim_le(le.clone());
            let be_t: Vec<u8> = le_t.iter().rev().copied().collect();
            m.nontrivial(!gen::is_zero(limbs));
            m.obs(|| format!("be={}", be.iter().map(|b| format!("{b:02x}")).collect::<String>()));
            if let Some(v) = m.must_in("as_le_slice", || x.as_le_slice().to_vec()) {
                m.eq("as_le_slice", &v, &le);
            }
            if let Some(v) = m.must_in("as_le_bytes", || x.as_le_bytes().into_owned()) {
                m.eq("as_le_bytes", &v, &le);
            }
            if let Some(v) = m.must_in("as_le_bytes_trimmed", || x.as_le_bytes_trimmed().into_owned()) {
                m.eq("as_le_bytes_trimmed", &v, &le_t);
            }
            if let Some(v) = m.must_in("to_le_bytes", || x.to_le_bytes::<NB>().to_vec()) {
                m.eq("to_le_bytes", &v, &le);
            }
            if let Some(v) = m.must_in("to_be_bytes", || x.to_be_bytes::<NB>().to_vec()) {
                m.eq("to_be_bytes", &v, &be);
            }
            if let Some(v) = m.must_in("to_le_bytes_vec", || x.to_le_bytes_vec()) {
                m.eq("to_le_bytes_vec", &v, &le);
            }
            if let Some(v) = m.must_in("to_be_bytes_vec", || x.to_be_bytes_vec()) {
                m.eq("to_be_bytes_vec", &v, &be);
            }
            if let Some(v) = m.must_in("to_le_bytes_trimmed_vec", || x.to_le_bytes_trimmed_vec()) {
                m.eq("to_le_bytes_trimmed_vec", &v, &le_t);
            }
            if let Some(v) = m.must_in("to_be_bytes_trimmed_vec", || x.to_be_bytes_trimmed_vec()) {
                m.eq("to_be_bytes_trimmed_vec", &v, &be_t);
            }
            // wrong array size must panic (documented)
            m.must_panic(|| x.to_le_bytes::<777>().len(), "BYTES mismatch");
            // copy into buffers: exact, longer (tail untouched), shorter (panic / None, untouched)
            for extra in [0usize, 1, 9] {
                let mut buf = vec![0xa5u8; NB + extra];
                if let Some(n) = m.must_in("copy_le_bytes_to", || x.copy_le_bytes_to(&mut buf)) {
                    m.eq("copy_le_bytes_to.len", &n, &NB);
                    m.eq("copy_le_bytes_to.bytes", &buf[..NB].to_vec(), &le);
                    m.eq("copy_le_bytes_to.tail", &buf[NB..].to_vec(), &vec![0xa5u8; extra]);
                }
                let mut buf = vec![0xa5u8; NB + extra];
                if let Some(n) = m.must_in("copy_be_bytes_to", || x.copy_be_bytes_to(&mut buf)) {
                    m.eq("copy_be_bytes_to.len", &n, &NB);
                    m.eq("copy_be_bytes_to.bytes", &buf[..NB].to_vec(), &be);
                    m.eq("copy_be_bytes_to.tail", &buf[NB..].to_vec(), &vec![0xa5u8; extra]);
                }
                let mut buf = vec![0xa5u8; NB + extra];
                if let Some(n) = m.must_in("checked_copy_le_bytes_to", || x.checked_copy_le_bytes_to(&mut buf)) {
                    m.eq("checked_copy_le_bytes_to.len", &n, &Some(NB));
                    m.eq("checked_copy_le_bytes_to.bytes", &buf[..NB].to_vec(), &le);
                    m.eq("checked_copy_le_bytes_to.tail", &buf[NB..].to_vec(), &vec![0xa5u8; extra]);
                }
                let mut buf = vec![0xa5u8; NB + extra];
                if let Some(n) = m.must_in("checked_copy_be_bytes_to", || x.checked_copy_be_bytes_to(&mut buf)) {
                    m.eq("checked_copy_be_bytes_to.len", &n, &Some(NB));
                    m.eq("checked_copy_be_bytes_to.bytes", &buf[..NB].to_vec(), &be);
                    m.eq("checked_copy_be_bytes_to.tail", &buf[NB..].to_vec(), &vec![0xa5u8; extra]);
                }
            }
            if NB > 0 {
                for short in [NB - 1, NB / 2, 0] {
                    let mut buf = vec![0xa5u8; short];
                    m.must_panic(|| x.copy_le_bytes_to(&mut buf), "buffer too short");
                    m.eq("copy_le_bytes_to.short-untouched", &buf, &vec![0xa5u8; short]);
                    let mut buf = vec![0xa5u8; short];
                    m.must_panic(|| x.copy_be_bytes_to(&mut buf), "buffer too short");
                    m.eq("copy_be_bytes_to.short-untouched", &buf, &vec![0xa5u8; short]);
                    let mut buf = vec![0xa5u8; short];
                    if let Some(n) = m.must_in("checked_copy_le_bytes_to", || x.checked_copy_le_bytes_to(&mut buf)) {
                        m.eq("checked_copy_le_bytes_to.short", &n, &None);
                        m.eq("checked_copy_le_bytes_to.short-untouched", &buf, &vec![0xa5u8; short]);
                    }
                    let mut buf = vec![0xa5u8; short];
                    if let Some(n) = m.must_in("checked_copy_be_bytes_to", || x.checked_copy_be_bytes_to(&mut buf)) {
                        m.eq("checked_copy_be_bytes_to.short", &n, &None);
                        m.eq("checked_copy_be_bytes_to.short-untouched", &buf, &vec![0xa5u8; short]);
                    }
                }
            }
            // decoding the encodings returns the value
            let mut arr_le = [0u8; NB];
            arr_le.copy_from_slice(&le);
            let mut arr_be = [0u8; NB];
            arr_be.copy_from_slice(&be);
            if let Some(v) = m.must_in("from_le_bytes", || Uint::<B, L>::from_le_bytes::<NB>(arr_le)) {
                m.eq_uint("from_le_bytes", &v, limbs);
            }
            if let Some(v) = m.must_in("from_be_bytes", || Uint::<B, L>::from_be_bytes::<NB>(arr_be)) {
                m.eq_uint("from_be_bytes", &v, limbs);
            }
            for (name, bytes, is_be) in [("le", &le, false), ("le_trimmed", &le_t, false), ("be", &be, true), ("be_trimmed", &be_t, true)] {
                let r = if is_be {
                    m.must_in("try_from_be_slice", || Uint::<B, L>::try_from_be_slice(bytes))
                } else {
                    m.must_in("try_from_le_slice", || Uint::<B, L>::try_from_le_slice(bytes))
                };
                if let Some(r) = r {
                    match r {
                        Some(v) => {
                            m.eq_uint(&format!("roundtrip.{name}"), &v, limbs);
                        }
                        None => m.fail(&format!("roundtrip.{name}.none"), "Some(value)", "None"),
                    }
                }
            }
        }
        "decode_be" | "decode_le" => {
            let bytes = a[0].b();
            let is_be = op == "decode_be";
            let be_view: Vec<u8> = if is_be { bytes.to_vec() } else { bytes.iter().rev().copied().collect() };
            let (val, fits) = denote_be(&be_view, B);
            let ok = bytes.len() <= NB && fits;
            m.nontrivial(!bytes.is_empty());
            m.obs(|| format!("len={} BYTES={NB} expected={}", bytes.len(), if ok { big::hex(&val) } else { "None".into() }));
            let r = if is_be {
                m.must_in("try_from_be_slice", || Uint::<B, L>::try_from_be_slice(bytes))
            } else {
                m.must_in("try_from_le_slice", || Uint::<B, L>::try_from_le_slice(bytes))
            };
            if let Some(r) = r {
                match r {
                    Some(v) => {
                        if m.eq("try_from_slice.some", &true, &ok) {
                            m.eq_uint("try_from_slice.value", &v, &val);
                        } else {
                            m.canonical(&v);
                        }
                    }
                    None => {
                        m.eq("try_from_slice.none", &true, &!ok);
                    }
                }
            }
            if ok {
                let r = if is_be {
                    m.must_in("from_be_slice", || Uint::<B, L>::from_be_slice(bytes))
                } else {
                    m.must_in("from_le_slice", || Uint::<B, L>::from_le_slice(bytes))
                };
                if let Some(v) = r {
                    m.eq_uint("from_slice.value", &v, &val);
                }
            } else if is_be {
                m.must_panic(|| Uint::<B, L>::from_be_slice(bytes), "value too large");
            } else {
                m.must_panic(|| Uint::<B, L>::from_le_slice(bytes), "value too large");
            }
            if bytes.len() == NB {
                let mut arr = [0u8; NB];
                arr.copy_from_slice(bytes);
                if ok {
                    let r = if is_be {
                        m.must_in("from_be_bytes", || Uint::<B, L>::from_be_bytes::<NB>(arr))
                    } else {
                        m.must_in("from_le_bytes", || Uint::<B, L>::from_le_bytes::<NB>(arr))
                    };
                    if let Some(v) = r {
                        m.eq_uint("from_bytes.value", &v, &val);
                    }
                } else if is_be {
                    m.must_panic(|| Uint::<B, L>::from_be_bytes::<NB>(arr), "value too large");
                } else {
                    m.must_panic(|| Uint::<B, L>::from_le_bytes::<NB>(arr), "value too large");
                }
            }
        }
        _ => panic!("harness: unknown op {op}"),
    }
}

fn both(m: &mut Mon, bits: usize, be: &[u8]) {
    m.case("decode_be", bits, vec![Arg::B(be.to_vec())]);
    let le: Vec<u8> = be.iter().rev().copied().collect();
    m.case("decode_le", bits, vec![Arg::B(le)]);
}

fn workload(m: &mut Mon, bits: usize) {
    let nb = (bits + 7) / 8;
    let l = gen::nlimbs(bits);
    // encoding: boundary + hostile values
    for v in gen::boundary(bits) {
        if !m.keep() {
            continue;
        }
        m.case("encode", bits, vec![au(&v)]);
    }
    for v in [gen::max(bits), gen::zero(bits), gen::small(1, bits), gen::ones(bits / 2, bits)] {
        m.case("array_size", bits, vec![au(&v)]);
    }
    let mut r = m.stream("c08.encode", bits);
    for _ in 0..m.iters(12) {
        m.case("array_size", bits, vec![au(&gen::hostile(&mut r, bits))]);
    }
    for i in 0..m.iters(if bits <= 512 { 1200 } else { 300 }) {
        if i % 256 == 0 && m.time_up() {
            break;
        }
        m.case("encode", bits, vec![au(&gen::hostile(&mut r, bits))]);
    }
    // decoding: every length 0..BYTES+8
    let mut r = m.stream("c08.decode", bits);
    let reps = m.iters(if bits <= 512 { 6 } else { 2 });
    for len in 0..=nb + 8 {
        if nb > 64 && len > 10 && len + 12 < nb && len % 8 > 1 {
            continue;
        }
        if !m.keep() {
            continue;
        }
        both(m, bits, &vec![0xffu8; len]);
        both(m, bits, &vec![0u8; len]);
        if len > 0 {
            let mut z = vec![0u8; len];
            z[0] = 1; // leading byte set (big-endian)
            both(m, bits, &z);
            let mut z = vec![0u8; len];
            z[len - 1] = 1;
            both(m, bits, &z);
        }
        for _ in 0..reps {
            let mut s = r.bytes(len);
            if len > 0 {
                match r.below(4) {
                    0 => s[0] = 0,
                    1 => s[0] = 0x80,
                    2 => s[0] = 1,
                    _ => {}
                }
            }
            both(m, bits, &s);
        }
    }
    if !m.is_light() && nb <= 64 {
        m.mark_exhaustive(format!("BITS={bits}: every slice length 0..=BYTES+8 for try_from_be/le_slice (contents: all-0xff, all-zero, single set byte, random)"));
    }
    // full-length strings: valid value with each excess high bit set, and values around 2^BITS
    if bits > 0 {
        let mut r = m.stream("c08.excess", bits);
        let reps = m.iters(12);
        for k in 0..reps {
            let v = match k % 4 {
                0 => gen::max(bits),
                1 => gen::zero(bits),
                2 => gen::alphabet(&mut r, bits),
                _ => gen::uniform(&mut r, bits),
            };
            let le = le_digits(&v, nb);
            let be: Vec<u8> = le.iter().rev().copied().collect();
            both(m, bits, &be);
            for extra in bits..8 * nb {
                let mut b = be.clone();
                b[0] |= 1 << (extra - 8 * (nb - 1));
                both(m, bits, &b);
            }
            // all excess bits set
            if bits % 8 != 0 {
                let mut b = be.clone();
                b[0] |= !((1u16 << (bits % 8)) - 1) as u8;
                both(m, bits, &b);
            }
            // shorter strings (leading zeros dropped) and one byte longer with a zero / non-zero lead
            if nb > 1 {
                both(m, bits, &be[1..]);
            }
            let mut longer = vec![0u8];
            longer.extend_from_slice(&be);
            both(m, bits, &longer);
            longer[0] = 1;
            both(m, bits, &longer);
        }
    }
    let _ = l;
}

fn main() {
    let mut m = Mon::new("C08", dispatch);
    if !m.replay_if_requested() {
        loop {
            for &bits in WIDTHS {
                if m.width_enabled(bits) {
                    workload(&mut m, bits);
                }
            }
            if !m.another_light_pass() {
                break;
            }
        }
    }
    m.finish();
}
