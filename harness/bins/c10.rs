//! C10 workload (under construction).
fn main() {}
