//! C10 — modular arithmetic (reduce_mod, add_mod, mul_mod, pow_mod, inv_mod)
//! vs BigUint for every modulus including 0 and 1.

use num_bigint::BigUint;
use num_traits::{One, Zero};
use ruint::Uint;
use vmon::{au, big, gcdgen, gen, rng::Rng, uint, Arg, Mon};

vmon::widths!(exec; 0, 1, 2, 3, 7, 8, 31, 32, 60, 63, 64, 65, 100, 127, 128, 129, 160, 192, 193,
    250, 255, 256, 257, 320, 384, 512, 521, 768, 1024, 2048);

fn exec<const B: usize, const L: usize>(m: &mut Mon, op: &str, a: &[Arg]) {
    match op {
        "mod3" => {
            let (x, y, md): (Uint<B, L>, Uint<B, L>, Uint<B, L>) = (uint(a[0].u()), uint(a[1].u()), uint(a[2].u()));
            let (bx, by, bm) = (big::big(a[0].u()), big::big(a[1].u()), big::big(a[2].u()));
            m.nontrivial(bm >= BigUint::from(2u8) && (bx >= BigUint::from(2u8) || by >= BigUint::from(2u8)));
            let (er, ea, em) = if bm.is_zero() {
                (gen::zero(B), gen::zero(B), gen::zero(B))
            } else {
                (big::limbs(&(&bx % &bm), L), big::limbs(&((&bx + &by) % &bm), L), big::limbs(&((&bx * &by) % &bm), L))
            };
            m.obs(|| format!("a mod m={} (a+b) mod m={} (a*b) mod m={}", big::hex(&er), big::hex(&ea), big::hex(&em)));
            if let Some(v) = m.must_in("reduce_mod", || x.reduce_mod(md)) {
                m.eq_uint("reduce_mod", &v, &er);
            }
            if let Some(v) = m.must_in("add_mod", || x.add_mod(y, md)) {
                m.eq_uint("add_mod", &v, &ea);
            }
            if let Some(v) = m.must_in("mul_mod", || x.mul_mod(y, md)) {
                m.eq_uint("mul_mod", &v, &em);
            }
        }
        "pow_mod" => {
            let (x, e, md): (Uint<B, L>, Uint<B, L>, Uint<B, L>) = (uint(a[0].u()), uint(a[1].u()), uint(a[2].u()));
            let (bx, be, bm) = (big::big(a[0].u()), big::big(a[1].u()), big::big(a[2].u()));
            m.nontrivial(bm >= BigUint::from(2u8) && bx >= BigUint::from(2u8) && be >= BigUint::from(2u8));
            let ep = if bm.is_zero() { gen::zero(B) } else { big::limbs(&bx.modpow(&be, &bm), L) };
            m.obs(|| format!("a^e mod m={}", big::hex(&ep)));
            if let Some(v) = m.must_in("pow_mod", || x.pow_mod(e, md)) {
                m.eq_uint("pow_mod", &v, &ep);
            }
        }
        "inv_mod" => {
            let (x, md): (Uint<B, L>, Uint<B, L>) = (uint(a[0].u()), uint(a[1].u()));
            let (bx, bm) = (big::big(a[0].u()), big::big(a[1].u()));
            m.nontrivial(bm >= BigUint::from(2u8) && bx >= BigUint::from(2u8));
            let exists = bm >= BigUint::from(2u8) && big::gcd(&bx, &bm).is_one();
            // the method and the public free function it forwards to: same contract, no precondition on either
            let method = m.must_in("inv_mod", || x.inv_mod(md));
            let free = m.must_in("algorithms::inv_mod", || ruint::algorithms::inv_mod(x, md));
            for (r, some, none, range, value) in [
                (method, "inv_mod.some", "inv_mod.none", "inv_mod.range", "inv_mod.value"),
                (free, "algorithms::inv_mod.some", "algorithms::inv_mod.none", "algorithms::inv_mod.range", "algorithms::inv_mod.value"),
            ] {
                let Some(r) = r else { continue };
                match r {
                    Some(v) => {
                        m.canonical(&v);
                        if m.eq(some, &true, &exists) {
                            let bv = big::big(v.as_limbs());
                            m.check(bv < bm, range, || format!("x < m = {}", big::bhex(&bm)), || big::bhex(&bv));
                            let prod = (&bx * &bv) % &bm;
                            m.check(prod.is_one(), value, || "a*x = 1 (mod m)".into(), || format!("x={} a*x mod m={}", big::bhex(&bv), big::bhex(&prod)));
                            m.obs(|| format!("inverse={}", big::bhex(&bv)));
                        }
                    }
                    None => {
                        m.eq(none, &true, &!exists);
                    }
                }
            }
        }
        _ => panic!("harness: unknown op {op}"),
    }
}

/// Hostile modulus: 0, 1, 2, 3, 2^k, 2^k+-1, 2^BITS-1, short (1..LIMBS limbs), alphabet.
fn modulus(r: &mut Rng, bits: usize) -> Vec<u64> {
    if bits == 0 {
        return vec![];
    }
    let l = gen::nlimbs(bits);
    match r.below(12) {
        0 => gen::small(r.below(4) as u64, bits),
        1 => gen::pow2(r.below(bits), bits),
        2 => gen::ones(r.range(1, bits), bits),
        3 => {
            let mut v = gen::pow2(r.below(bits), bits);
            v[0] |= 1;
            v
        }
        4 => gen::max(bits),
        5 | 6 => {
            // short modulus: dl limbs
            let dl = r.range(1, l);
            let len = (64 * dl).min(bits);
            let tb = r.range(len.saturating_sub(63).max(1), len);
            gen::with_bit_len(r, tb, bits)
        }
        7 => {
            let mut v = gen::alphabet(r, bits);
            v[0] |= 1;
            v
        }
        _ => gen::hostile(r, bits),
    }
}

fn workload(m: &mut Mon, bits: usize) {
    if bits <= 3 {
        for a in 0..(1u64 << bits) {
            for b in 0..(1u64 << bits) {
                for md in 0..(1u64 << bits) {
                    if !m.keep() {
                        continue;
                    }
                    let (a, b, md) = (gen::small(a, bits), gen::small(b, bits), gen::small(md, bits));
                    m.case("mod3", bits, vec![au(&a), au(&b), au(&md)]);
                    m.case("pow_mod", bits, vec![au(&a), au(&b), au(&md)]);
                }
                m.case("inv_mod", bits, vec![au(&gen::small(a, bits)), au(&gen::small(b, bits))]);
            }
        }
        if !m.is_light() {
            m.mark_exhaustive(format!("all (a, b, m) and (a, e, m) triples at BITS={bits}"));
        }
    }
    if bits == 0 {
        return;
    }
    let bd = gen::boundary(bits);
    let mut r = m.stream("c10.directed", bits);
    let special: Vec<Vec<u64>> = vec![gen::zero(bits), gen::small(1, bits), gen::small(2, bits), gen::small(3, bits), gen::max(bits),
        gen::pow2(bits - 1, bits), gen::ones(bits - 1, bits), gen::pow2(bits / 2, bits)];
    for md in bd.iter().chain(special.iter()) {
        if !m.keep() {
            continue;
        }
        // a = b = m - 1, operands >= m, sums / products overflowing BITS
        let bm = big::big(md);
        let m1 = if bm.is_zero() { gen::max(bits) } else { big::limbs(&(&bm - 1u8), gen::nlimbs(bits)) };
        let cands = [m1.clone(), gen::max(bits), md.clone(), r.pick(&bd).clone(), r.pick(&bd).clone()];
        for x in &cands {
            for y in &cands {
                m.case("mod3", bits, vec![au(x), au(y), au(md)]);
            }
            m.case("inv_mod", bits, vec![au(x), au(md)]);
            if bits <= 1024 {
                for e in [gen::zero(bits), gen::small(1, bits), gen::small(2, bits), gen::small(3, bits), gen::small(65537, bits)] {
                    m.case("pow_mod", bits, vec![au(x), au(&e), au(md)]);
                }
            }
        }
    }
    // Operands around half the width (where a single-width product first stops fitting) against moduli of
    // every length class that do not divide 2^BITS: the boundary any "small operands" fast path must get right.
    if bits >= 4 {
        let mut r = m.stream("c10.halfwidth", bits);
        let lens = [bits / 2 - 1, bits / 2, bits / 2 + 1, (bits + 1) / 2, bits - 1, bits];
        for _ in 0..m.iters(if bits <= 512 { 400 } else { 60 }) {
            if !m.keep() {
                continue;
            }
            let la = *r.pick(&lens);
            let lb = *r.pick(&lens);
            let a = gen::with_bit_len(&mut r, la.max(1), bits);
            let b = if r.chance(1, 3) { gen::ones(lb.max(1), bits) } else { gen::with_bit_len(&mut r, lb.max(1), bits) };
            let lm = match r.below(4) {
                0 => r.range(2, (bits / 2).max(2)),
                1 => *r.pick(&lens),
                2 => bits,
                _ => r.range(2, bits),
            };
            let mut md = gen::with_bit_len(&mut r, lm.max(2), bits);
            md[0] |= 1; // odd, so it never divides 2^BITS
            m.case("mod3", bits, vec![au(&a), au(&b), au(&md)]);
            let e = match r.below(3) {
                0 => gen::small(2 + r.below(6) as u64, bits),
                1 => gen::small(gen::alpha_limb(&mut r) >> r.below(60), bits),
                _ => b.clone(),
            };
            if bits <= 512 || r.chance(1, 8) {
                m.case("pow_mod", bits, vec![au(&a), au(&e), au(&md)]);
            }
        }
    }
    // random
    let mut r = m.stream("c10.random", bits);
    let iters = m.iters(if bits <= 256 { 4000 } else if bits <= 1024 { 1200 } else { 250 });
    for i in 0..iters {
        if i % 64 == 0 && m.time_up() {
            break;
        }
        let md = modulus(&mut r, bits);
        let x = gen::hostile(&mut r, bits);
        let y = gen::hostile(&mut r, bits);
        m.case("mod3", bits, vec![au(&x), au(&y), au(&md)]);
        // inverse: hostile pair, and pairs with a known quotient sequence
        m.case("inv_mod", bits, vec![au(&x), au(&md)]);
        let pat = r.below(10);
        let (ga, gb, _) = gcdgen::pair(&mut r, bits, pat);
        let l = gen::nlimbs(bits);
        m.case("inv_mod", bits, vec![au(&big::limbs(&gb, l)), au(&big::limbs(&ga, l))]);
        m.case("inv_mod", bits, vec![au(&big::limbs(&ga, l)), au(&big::limbs(&gb, l))]);
        // pow_mod: exponents 0, 1, 2^k, small, full width (full width only up to 1024 bits and thinned)
        if i % 4 == 0 {
            let e = match r.below(6) {
                0 => gen::pow2(r.below(bits), bits),
                1 => gen::small(r.below(70) as u64, bits),
                2 => gen::small(gen::alpha_limb(&mut r), bits),
                3 if bits <= 512 || i % 64 == 0 => gen::hostile(&mut r, bits),
                4 if bits <= 512 || i % 64 == 0 => gen::max(bits),
                _ => gen::with_bit_len(&mut r, bits.min(40), bits),
            };
            m.case("pow_mod", bits, vec![au(&x), au(&e), au(&md)]);
        }
    }
}

fn main() {
    let mut m = Mon::new("C10", dispatch);
    m.use_hooks = true;
    if !m.replay_if_requested() {
        loop {
            for &bits in WIDTHS {
                if m.width_enabled(bits) {
                    workload(&mut m, bits);
                }
            }
            if !m.another_light_pass() {
                break;
            }
        }
    }
    m.finish();
}
