//! C16 — every codec integration round-trips, advertises a length that is
//! consistent with the bytes it produces, and emits its format's reference
//! encoding (and, where the codec crate encodes u64/u128 itself, the very same
//! bytes as the equal primitive).
//!
//! One case = (op = integration, bits, [value]); every sub-claim has its own
//! `kind`. The reference encoders below work on the raw limbs only and never
//! call ruint's byte conversion functions.

use num_bigint::{BigInt, BigUint};
use ruint::{Bits, Uint};
use std::collections::HashSet;
use vmon::{au, big, gen, uint, Arg, Mon};

vmon::widths!(exec; 0, 1, 7, 8, 9, 16, 31, 32, 60, 63, 64, 65, 127, 128, 129, 160, 192, 250, 255,
    256, 257, 320, 384, 440, 441, 448, 512, 535, 1024);

/// SCALE compact is documented to support values below 2^536 only.
const COMPACT_LIMIT: usize = 536;

const BN254_FR: &str = "21888242871839275222246405745257275088548364400416034343698204186575808495617";
const BN254_FQ: &str = "21888242871839275222246405745257275088696311157297823662689037894645226208583";

// ---------------------------------------------------------------------------
// Raw-limb byte views (independent of ruint)
// ---------------------------------------------------------------------------

const fn nbytes(bits: usize) -> usize {
    (bits + 7) / 8
}

/// The `n` low little-endian bytes of the value; the rest must be zero.
fn le_bytes(limbs: &[u64], n: usize) -> Vec<u8> {
    let mut out = Vec::with_capacity(limbs.len() * 8);
    for l in limbs {
        out.extend_from_slice(&l.to_le_bytes());
    }
    assert!(n <= out.len() && out[n..].iter().all(|&b| b == 0), "harness: value does not fit {n} bytes");
    out.truncate(n);
    out
}

fn be_bytes(limbs: &[u64], n: usize) -> Vec<u8> {
    let mut v = le_bytes(limbs, n);
    v.reverse();
    v
}

/// Little-endian bytes without most-significant zero bytes (empty for zero).
fn le_min(limbs: &[u64]) -> Vec<u8> {
    let mut v = le_bytes(limbs, limbs.len() * 8);
    while v.last() == Some(&0) {
        v.pop();
    }
    v
}

/// Big-endian bytes without leading zero bytes (empty for zero).
fn be_min(limbs: &[u64]) -> Vec<u8> {
    let mut v = le_min(limbs);
    v.reverse();
    v
}

fn fits_u64(limbs: &[u64]) -> bool {
    limbs.iter().skip(1).all(|&l| l == 0)
}

fn fits_u128(limbs: &[u64]) -> bool {
    limbs.iter().skip(2).all(|&l| l == 0)
}

fn lo_u64(limbs: &[u64]) -> u64 {
    limbs.first().copied().unwrap_or(0)
}

fn lo_u128(limbs: &[u64]) -> u128 {
    u128::from(lo_u64(limbs)) | (u128::from(limbs.get(1).copied().unwrap_or(0)) << 64)
}

fn ge2(limbs: &[u64]) -> bool {
    !fits_u64(limbs) || lo_u64(limbs) >= 2
}

fn hexs(b: &[u8]) -> String {
    let mut s = String::with_capacity(2 * b.len() + 2);
    s.push_str("0x");
    for x in b {
        s.push_str(&format!("{x:02x}"));
    }
    s
}

// ---------------------------------------------------------------------------
// Reference encoders, written from the format definitions
// ---------------------------------------------------------------------------

/// RLP string item (Ethereum yellow paper, appendix B).
fn rlp_string(payload: &[u8]) -> Vec<u8> {
    if payload.len() == 1 && payload[0] < 0x80 {
        return vec![payload[0]];
    }
    let mut out = Vec::with_capacity(payload.len() + 9);
    if payload.len() <= 55 {
        out.push(0x80 + payload.len() as u8);
    } else {
        let l = be_min(&[payload.len() as u64]);
        out.push(0xb7 + l.len() as u8);
        out.extend_from_slice(&l);
    }
    out.extend_from_slice(payload);
    out
}

/// RLP list item around an already encoded payload.
fn rlp_list(payload: &[u8]) -> Vec<u8> {
    let mut out = Vec::with_capacity(payload.len() + 9);
    if payload.len() <= 55 {
        out.push(0xc0 + payload.len() as u8);
    } else {
        let l = be_min(&[payload.len() as u64]);
        out.push(0xf7 + l.len() as u8);
        out.extend_from_slice(&l);
    }
    out.extend_from_slice(payload);
    out
}

/// RLP scalar: the minimal big-endian byte string of the value.
fn ref_rlp(limbs: &[u64]) -> Vec<u8> {
    rlp_string(&be_min(limbs))
}

/// SCALE compact / general integer, four modes.
fn ref_compact(limbs: &[u64]) -> Vec<u8> {
    let bl = gen::bit_len(limbs);
    let lo = lo_u64(limbs);
    if bl <= 6 {
        vec![(lo as u8) << 2]
    } else if bl <= 14 {
        (((lo as u16) << 2) | 0b01).to_le_bytes().to_vec()
    } else if bl <= 30 {
        (((lo as u32) << 2) | 0b10).to_le_bytes().to_vec()
    } else {
        let le = le_min(limbs);
        assert!(le.len() >= 4 && le.len() <= 67, "harness: compact reference outside 2^536");
        let mut out = vec![(((le.len() - 4) as u8) << 2) | 0b11];
        out.extend_from_slice(&le);
        out
    }
}

/// ruint's documented fixed SCALE form: a SCALE byte vector (compact length
/// prefix + payload) holding the BYTES-long little-endian value.
fn ref_scale_fixed(limbs: &[u64], bits: usize) -> Vec<u8> {
    let n = nbytes(bits);
    let mut out = ref_compact(&[n as u64]);
    out.extend_from_slice(&le_bytes(limbs, n));
    out
}

/// Canonical DER INTEGER (X.690 8.3, 10.1): returns (content, whole TLV).
fn ref_der(limbs: &[u64]) -> (Vec<u8>, Vec<u8>) {
    let mut content = be_min(limbs);
    if content.is_empty() || content[0] >= 0x80 {
        content.insert(0, 0);
    }
    let mut out = vec![0x02];
    let n = content.len();
    if n < 0x80 {
        out.push(n as u8);
    } else {
        let l = be_min(&[n as u64]);
        out.push(0x80 | l.len() as u8);
        out.extend_from_slice(&l);
    }
    out.extend_from_slice(&content);
    (content, out)
}

/// DER TLV with a definite length in the shortest form.
fn der_tlv(tag: u8, content: &[u8]) -> Vec<u8> {
    let mut out = vec![tag];
    let n = content.len();
    if n < 0x80 {
        out.push(n as u8);
    } else {
        let l = be_min(&[n as u64]);
        out.push(0x80 | l.len() as u8);
        out.extend_from_slice(&l);
    }
    out.extend_from_slice(content);
    out
}

/// Ethereum JSON "quantity": 0x-prefixed hex without leading zeros, "0x0".
fn ref_quantity(limbs: &[u64]) -> String {
    let be = be_min(limbs);
    if be.is_empty() {
        return "0x0".into();
    }
    let mut s = format!("0x{:x}", be[0]);
    for b in &be[1..] {
        s.push_str(&format!("{b:02x}"));
    }
    s
}

/// bincode 1.x default options: byte string = u64-LE length + bytes; ruint's
/// binary serde form is the BYTES-long big-endian string.
fn ref_bincode(limbs: &[u64], bits: usize) -> Vec<u8> {
    let n = nbytes(bits);
    let mut out = (n as u64).to_le_bytes().to_vec();
    out.extend_from_slice(&be_bytes(limbs, n));
    out
}

// ---------------------------------------------------------------------------
// Small judging helpers
// ---------------------------------------------------------------------------

fn bytes_eq(m: &mut Mon, kind: &str, observed: &[u8], expected: &[u8]) -> bool {
    m.check(observed == expected, kind, || hexs(expected), || hexs(observed))
}

/// A decode result must be `Ok(original value)`.
fn decoded<const B: usize, const L: usize, E: std::fmt::Debug>(
    m: &mut Mon,
    kind: &str,
    r: Option<Result<Uint<B, L>, E>>,
    limbs: &[u64],
) {
    match r {
        Some(Ok(d)) => {
            m.eq_uint(kind, &d, limbs);
        }
        Some(Err(e)) => m.fail(kind, &format!("Ok({})", big::hex(limbs)), &format!("Err({e:?})")),
        None => {}
    }
}

/// An encode result must be `Ok(bytes)`.
fn encoded<E: std::fmt::Debug>(m: &mut Mon, kind: &str, r: Option<Result<Vec<u8>, E>>) -> Option<Vec<u8>> {
    match r {
        Some(Ok(b)) => Some(b),
        Some(Err(e)) => {
            m.fail(kind, "Ok(bytes)", &format!("Err({e:?})"));
            None
        }
        None => None,
    }
}

/// Like `Mon::must` but with a caller-chosen narrow kind for the panic.
fn must_k<T>(m: &mut Mon, kind: &str, f: impl FnOnce() -> T) -> Option<T> {
    match m.call(f) {
        Ok(v) => Some(v),
        Err(p) => {
            if p.msg.starts_with(vmon::mon::hooks::LOOP_CAP_MESSAGE) {
                m.unexpected_panic(&p);
            } else {
                m.fail(kind, "no panic", &format!("panic: {} at {}:{}", p.msg, vmon::mon::short_file(&p.file), p.line));
            }
            None
        }
    }
}

// ---------------------------------------------------------------------------
// serde
// ---------------------------------------------------------------------------

fn op_json<const B: usize, const L: usize>(m: &mut Mon, limbs: &[u64]) {
    let v: Uint<B, L> = uint(limbs);
    let want = format!("\"{}\"", ref_quantity(limbs));
    m.obs(|| format!("json={want}"));
    let r = m.must(|| serde_json::to_string(&v).map(String::into_bytes));
    if let Some(text) = encoded(m, "json.encode", r) {
        bytes_eq(m, "json.text", &text, want.as_bytes());
        let r = m.must(|| serde_json::from_slice::<Uint<B, L>>(&text));
        decoded(m, "json.roundtrip", r, limbs);
    }
    // as a member of a sequence, between other members
    let r = m.must(|| serde_json::to_string(&(7u8, v, [v, v], "x")).map(String::into_bytes));
    if let Some(text) = encoded(m, "json.framed.encode", r) {
        let q = ref_quantity(limbs);
        bytes_eq(m, "json.framed.text", &text, format!("[7,\"{q}\",[\"{q}\",\"{q}\"],\"x\"]").as_bytes());
        match m.must(|| serde_json::from_slice::<(u8, Uint<B, L>, [Uint<B, L>; 2], String)>(&text)) {
            Some(Ok((h, a, [b, c], t))) => {
                m.eq_uint("json.framed.roundtrip", &a, limbs);
                m.eq_uint("json.framed.roundtrip", &b, limbs);
                m.eq_uint("json.framed.roundtrip", &c, limbs);
                m.eq("json.framed.frame", &(h, t.as_str()), &(7, "x"));
            }
            Some(Err(e)) => m.fail("json.framed.roundtrip", "Ok", &format!("Err({e:?})")),
            None => {}
        }
    }
    // through serde_json::Value
    match m.must(|| serde_json::to_value(v)) {
        Some(Ok(val)) => {
            let exp = serde_json::Value::String(ref_quantity(limbs));
            m.eq("json.value", &val, &exp);
            let r = m.must(|| serde_json::from_value::<Uint<B, L>>(val));
            decoded(m, "json.value.roundtrip", r, limbs);
        }
        Some(Err(e)) => m.fail("json.value.encode", "Ok(value)", &format!("Err({e:?})")),
        None => {}
    }
    // Bits: round-trip only (its text form is not a quantity).
    let b = Bits::from(v);
    let r = m.must(|| serde_json::to_string(&b).map(String::into_bytes));
    if let Some(text) = encoded(m, "json.bits.encode", r) {
        let r = m.must(|| serde_json::from_slice::<Bits<B, L>>(&text).map(Bits::into_inner));
        decoded(m, "json.bits.roundtrip", r, limbs);
    }
}

fn op_bincode<const B: usize, const L: usize>(m: &mut Mon, limbs: &[u64]) {
    let v: Uint<B, L> = uint(limbs);
    let want = ref_bincode(limbs, B);
    m.obs(|| format!("bincode={}", hexs(&want)));
    let size = m.must(|| bincode::serialized_size(&v));
    let r = m.must(|| bincode::serialize(&v));
    if let Some(bytes) = encoded(m, "bincode.encode", r) {
        bytes_eq(m, "bincode.bytes", &bytes, &want);
        match size {
            Some(Ok(s)) => {
                m.eq("bincode.size", &s, &(bytes.len() as u64));
            }
            Some(Err(e)) => m.fail("bincode.size", "Ok(len)", &format!("Err({e:?})")),
            None => {}
        }
        let r = m.must(|| bincode::deserialize::<Uint<B, L>>(&bytes));
        decoded(m, "bincode.roundtrip", r, limbs);
        // from a reader
        let r = m.must(|| bincode::deserialize_from::<_, Uint<B, L>>(&mut &bytes[..]));
        decoded(m, "bincode.reader.roundtrip", r, limbs);
    }
    // between other fields: exactly the same bytes, and decoding consumes exactly those
    let r = m.must(|| bincode::serialize(&(0x5au8, v, v, 0xa5u8)));
    if let Some(tb) = encoded(m, "bincode.framed.encode", r) {
        let mut exp = vec![0x5au8];
        exp.extend_from_slice(&want);
        exp.extend_from_slice(&want);
        exp.push(0xa5);
        bytes_eq(m, "bincode.framed.bytes", &tb, &exp);
        match m.must(|| bincode::deserialize::<(u8, Uint<B, L>, Uint<B, L>, u8)>(&tb)) {
            Some(Ok((h, a, b, t))) => {
                m.eq_uint("bincode.framed.roundtrip", &a, limbs);
                m.eq_uint("bincode.framed.roundtrip", &b, limbs);
                m.eq("bincode.framed.frame", &(h, t), &(0x5a, 0xa5));
            }
            Some(Err(e)) => m.fail("bincode.framed.roundtrip", "Ok", &format!("Err({e:?})")),
            None => {}
        }
    }
    let b = Bits::from(v);
    let r = m.must(|| bincode::serialize(&b));
    if let Some(bytes) = encoded(m, "bincode.bits.encode", r) {
        bytes_eq(m, "bincode.bits.bytes", &bytes, &want);
        let r = m.must(|| bincode::deserialize::<Bits<B, L>>(&bytes).map(Bits::into_inner));
        decoded(m, "bincode.bits.roundtrip", r, limbs);
    }
}

// ---------------------------------------------------------------------------
// RLP family
// ---------------------------------------------------------------------------

fn op_rlp<const B: usize, const L: usize>(m: &mut Mon, limbs: &[u64]) {
    let v: Uint<B, L> = uint(limbs);
    let want = ref_rlp(limbs);
    m.obs(|| format!("rlp={}", hexs(&want)));
    if let Some(bytes) = m.must(|| rlp::encode(&v).to_vec()) {
        bytes_eq(m, "rlp.bytes", &bytes, &want);
        if fits_u64(limbs) {
            let p = rlp::encode(&lo_u64(limbs)).to_vec();
            bytes_eq(m, "rlp.prim_u64", &bytes, &p);
        }
        if fits_u128(limbs) {
            let p = rlp::encode(&lo_u128(limbs)).to_vec();
            bytes_eq(m, "rlp.prim_u128", &bytes, &p);
        }
        let r = m.must(|| rlp::decode::<Uint<B, L>>(&bytes));
        decoded(m, "rlp.roundtrip", r, limbs);
    }
    // list context: the item must count as exactly one element wherever it stands (zero first / in the
    // middle / last), through encode_list and through an explicit fixed-length stream, also nested
    {
        let z: Uint<B, L> = Uint::ZERO;
        let mx: Uint<B, L> = Uint::MAX;
        let items = [z, v, z, mx, v, z];
        let mut payload = Vec::new();
        for it in &items {
            payload.extend_from_slice(&ref_rlp(it.as_limbs()));
        }
        let want_list = rlp_list(&payload);
        if let Some(bytes) = must_k(m, "rlp.list.encode_list.panic", || rlp::encode_list::<Uint<B, L>, _>(&items).to_vec()) {
            bytes_eq(m, "rlp.list.encode_list", &bytes, &want_list);
            if let Some(d) = must_k(m, "rlp.list.decode_list.panic", || rlp::Rlp::new(&bytes).as_list::<Uint<B, L>>()) {
                match d {
                    Ok(d) => {
                        m.eq("rlp.list.roundtrip", &d.iter().map(|x| x.as_limbs().to_vec()).collect::<Vec<_>>(),
                             &items.iter().map(|x| x.as_limbs().to_vec()).collect::<Vec<_>>());
                    }
                    Err(e) => m.fail("rlp.list.roundtrip", "Ok(items)", &format!("Err({e:?})")),
                }
            }
        }
        if let Some(bytes) = must_k(m, "rlp.list.stream.panic", || {
            let mut s = rlp::RlpStream::new_list(2);
            s.begin_list(items.len());
            for it in &items {
                s.append(it);
            }
            s.append(&v);
            s.out().to_vec()
        }) {
            let mut outer = want_list.clone();
            outer.extend_from_slice(&ref_rlp(limbs));
            bytes_eq(m, "rlp.list.nested_stream", &bytes, &rlp_list(&outer));
        }
    }
    // Bits: a BYTES-long string; round-trip only.
    let b = Bits::from(v);
    if let Some(bytes) = m.must(|| rlp::encode(&b).to_vec()) {
        let r = m.must(|| rlp::decode::<Bits<B, L>>(&bytes).map(Bits::into_inner));
        decoded(m, "rlp.bits.roundtrip", r, limbs);
    }
}

macro_rules! rlp_like {
    ($name:ident, $krate:ident, $p:literal) => {
        /// Returns the produced bytes (if the encoder did not panic).
        fn $name<const B: usize, const L: usize>(m: &mut Mon, limbs: &[u64]) -> Option<Vec<u8>> {
            let v: Uint<B, L> = uint(limbs);
            let want = ref_rlp(limbs);
            m.obs(|| format!("rlp={}", hexs(&want)));
            let len = m.must(|| <Uint<B, L> as $krate::Encodable>::length(&v));
            let bytes = m.must(|| {
                let mut out: Vec<u8> = Vec::new();
                <Uint<B, L> as $krate::Encodable>::encode(&v, &mut out);
                out
            })?;
            bytes_eq(m, concat!($p, ".bytes"), &bytes, &want);
            if let Some(len) = len {
                m.eq(concat!($p, ".length"), &len, &bytes.len());
                // a caller that reserves exactly `length()` bytes must succeed
                // (a wildly wrong length is already reported above; do not allocate it)
                let exact = if len <= bytes.len() + 4096 {
                    must_k(m, concat!($p, ".encode_into_exact.panic"), || {
                        let mut buf = vec![0u8; len];
                        let rest = {
                            let mut s: &mut [u8] = &mut buf[..];
                            <Uint<B, L> as $krate::Encodable>::encode(&v, &mut s);
                            s.len()
                        };
                        buf.truncate(len - rest);
                        buf
                    })
                } else {
                    None
                };
                if let Some(b2) = exact {
                    bytes_eq(m, concat!($p, ".encode_into_exact"), &b2, &bytes);
                }
            }
            // appended to a buffer that already has content, twice; decoded back one after the other
            if let Some(b3) = must_k(m, concat!($p, ".append.panic"), || {
                let mut out: Vec<u8> = vec![0x5a, 0xa5];
                <Uint<B, L> as $krate::Encodable>::encode(&v, &mut out);
                <Uint<B, L> as $krate::Encodable>::encode(&v, &mut out);
                out.push(0x01);
                out
            }) {
                let mut exp = vec![0x5a, 0xa5];
                exp.extend_from_slice(&want);
                exp.extend_from_slice(&want);
                exp.push(0x01);
                if bytes_eq(m, concat!($p, ".append"), &b3, &exp) {
                    if let Some((r1, r2, rest)) = m.must(|| {
                        let mut s = &b3[2..];
                        let r1 = <Uint<B, L> as $krate::Decodable>::decode(&mut s);
                        let r2 = <Uint<B, L> as $krate::Decodable>::decode(&mut s);
                        (r1, r2, s.to_vec())
                    }) {
                        let ok = r1.is_ok() && r2.is_ok();
                        decoded(m, concat!($p, ".sequence.roundtrip"), Some(r1), limbs);
                        decoded(m, concat!($p, ".sequence.roundtrip"), Some(r2), limbs);
                        if ok {
                            m.eq(concat!($p, ".sequence.rest"), &rest, &vec![0x01u8]);
                        }
                    }
                }
            }
            let max = <Uint<B, L> as $krate::MaxEncodedLenAssoc>::LEN;
            m.check(max >= bytes.len(), concat!($p, ".max_len_assoc"), || format!(">= {}", bytes.len()), || max.to_string());
            if fits_u64(limbs) {
                let mut p: Vec<u8> = Vec::new();
                <u64 as $krate::Encodable>::encode(&lo_u64(limbs), &mut p);
                bytes_eq(m, concat!($p, ".prim_u64"), &bytes, &p);
            }
            if fits_u128(limbs) {
                let mut p: Vec<u8> = Vec::new();
                <u128 as $krate::Encodable>::encode(&lo_u128(limbs), &mut p);
                bytes_eq(m, concat!($p, ".prim_u128"), &bytes, &p);
            }
            if let Some((r, rest)) = m.must(|| {
                let mut s = &bytes[..];
                let r = <Uint<B, L> as $krate::Decodable>::decode(&mut s);
                (r, s.len())
            }) {
                let ok = r.is_ok();
                decoded(m, concat!($p, ".roundtrip"), Some(r), limbs);
                if ok {
                    m.eq(concat!($p, ".decode.rest"), &rest, &0usize);
                }
            }
            Some(bytes)
        }
    };
}

rlp_like!(op_alloy_rlp, alloy_rlp, "alloy_rlp");
rlp_like!(op_fastrlp_03, fastrlp_03, "fastrlp_03");
rlp_like!(op_fastrlp_04, fastrlp_04, "fastrlp_04");

fn alloy_n<T: alloy_rlp::MaxEncodedLen<N>, const N: usize>(_: &T) -> usize {
    N
}

/// alloy-rlp extras: the `encode` helper (allocates `length()` up front),
/// `decode_exact`, and `MaxEncodedLen<N>` on the widths that implement it.
fn alloy_extra<const B: usize, const L: usize>(m: &mut Mon, limbs: &[u64], bytes: &[u8]) {
    let v: Uint<B, L> = uint(limbs);
    if let Some(b2) = m.must(|| alloy_rlp::encode(v)) {
        bytes_eq(m, "alloy_rlp.encode_fn", &b2, bytes);
    }
    let r = m.must(|| alloy_rlp::decode_exact::<Uint<B, L>>(bytes));
    decoded(m, "alloy_rlp.decode_exact", r, limbs);
    // list context (Vec<Uint> is an RLP list of the items)
    {
        let items: Vec<Uint<B, L>> = vec![Uint::ZERO, v, Uint::ZERO, Uint::MAX, v];
        let mut payload = Vec::new();
        for it in &items {
            payload.extend_from_slice(&ref_rlp(it.as_limbs()));
        }
        let want_list = rlp_list(&payload);
        if let Some(b2) = must_k(m, "alloy_rlp.list.encode.panic", || alloy_rlp::encode(&items)) {
            bytes_eq(m, "alloy_rlp.list.bytes", &b2, &want_list);
            if let Some(d) = must_k(m, "alloy_rlp.list.decode.panic", || alloy_rlp::decode_exact::<Vec<Uint<B, L>>>(&b2)) {
                match d {
                    Ok(d) => {
                        m.eq("alloy_rlp.list.roundtrip", &d.iter().map(|x| x.as_limbs().to_vec()).collect::<Vec<_>>(),
                             &items.iter().map(|x| x.as_limbs().to_vec()).collect::<Vec<_>>());
                    }
                    Err(e) => m.fail("alloy_rlp.list.roundtrip", "Ok(items)", &format!("Err({e:?})")),
                }
            }
        }
    }
    macro_rules! at {
        ($($w:literal),*) => {
            match B {
                $($w => {
                    let v: Uint<$w, { ($w + 63) / 64 }> = uint(limbs);
                    let n = alloy_n(&v);
                    m.check(n >= bytes.len(), "alloy_rlp.max_len_n", || format!(">= {}", bytes.len()), || n.to_string());
                })*
                _ => {}
            }
        };
    }
    at!(0, 1, 8, 16, 32, 64, 128, 160, 192, 256, 384, 512);
}

macro_rules! fastrlp_fixed {
    ($name:ident, $krate:ident, $p:literal; $($w:literal),*) => {
        /// `encode_fixed_size` writes into an `ArrayVec<u8, N>` whose capacity
        /// is the advertised `MaxEncodedLen<N>`.
        fn $name(m: &mut Mon, bits: usize, limbs: &[u64], bytes: &[u8]) {
            match bits {
                $($w => {
                    let v: Uint<$w, { ($w + 63) / 64 }> = uint(limbs);
                    if let Some((b2, cap)) = m.must(|| {
                        let av = $krate::encode_fixed_size(&v);
                        (av.to_vec(), av.capacity())
                    }) {
                        bytes_eq(m, concat!($p, ".encode_fixed_size"), &b2, bytes);
                        m.check(cap >= bytes.len(), concat!($p, ".max_len_n"), || format!(">= {}", bytes.len()), || cap.to_string());
                    }
                })*
                _ => {}
            }
        }
    };
}

fastrlp_fixed!(fastrlp_03_fixed, fastrlp_03, "fastrlp_03"; 0, 1, 8, 16, 32, 64, 128, 160, 192, 256, 384, 512);
fastrlp_fixed!(fastrlp_04_fixed, fastrlp_04, "fastrlp_04"; 0, 1, 8, 16, 32, 64, 128, 160, 192, 256, 384, 512);

// ---------------------------------------------------------------------------
// SCALE
// ---------------------------------------------------------------------------

fn op_scale_fixed<const B: usize, const L: usize>(m: &mut Mon, limbs: &[u64]) {
    use parity_scale_codec as psc;
    let v: Uint<B, L> = uint(limbs);
    let want = ref_scale_fixed(limbs, B);
    m.obs(|| format!("scale={}", hexs(&want)));
    let hint = m.must(|| <Uint<B, L> as psc::Encode>::size_hint(&v));
    let size = m.must(|| <Uint<B, L> as psc::Encode>::encoded_size(&v));
    let max = m.must(<Uint<B, L> as psc::MaxEncodedLen>::max_encoded_len);
    let Some(bytes) = m.must(|| <Uint<B, L> as psc::Encode>::encode(&v)) else {
        return;
    };
    bytes_eq(m, "scale.fixed.bytes", &bytes, &want);
    if let Some(b2) = m.must(|| {
        let mut out: Vec<u8> = Vec::new();
        <Uint<B, L> as psc::Encode>::encode_to(&v, &mut out);
        out
    }) {
        bytes_eq(m, "scale.fixed.encode_to", &b2, &bytes);
    }
    if let Some(size) = size {
        m.eq("scale.fixed.encoded_size", &size, &bytes.len());
    }
    if let Some(hint) = hint {
        // documented as "u32 prefix + BYTES": an upper bound
        m.check(hint >= bytes.len(), "scale.fixed.size_hint", || format!(">= {}", bytes.len()), || hint.to_string());
    }
    if let Some(max) = max {
        m.check(max >= bytes.len(), "scale.fixed.max_encoded_len", || format!(">= {}", bytes.len()), || max.to_string());
    }
    if let Some((r, rest)) = m.must(|| {
        let mut s = &bytes[..];
        let r = <Uint<B, L> as psc::Decode>::decode(&mut s);
        (r, s.len())
    }) {
        let ok = r.is_ok();
        decoded(m, "scale.fixed.roundtrip", Some(r), limbs);
        if ok {
            m.eq("scale.fixed.decode.rest", &rest, &0usize);
        }
    }
    // embedded between other fields: must consume exactly its own bytes
    if let Some(tb) = m.must(|| <(u8, Uint<B, L>, u8) as psc::Encode>::encode(&(0x5a, v, 0xa5))) {
        let mut exp = vec![0x5a];
        exp.extend_from_slice(&want);
        exp.push(0xa5);
        bytes_eq(m, "scale.fixed.tuple.bytes", &tb, &exp);
        match m.must(|| <(u8, Uint<B, L>, u8) as psc::Decode>::decode(&mut &tb[..])) {
            Some(Ok((h, d, t))) => {
                m.eq_uint("scale.fixed.tuple.roundtrip", &d, limbs);
                m.eq("scale.fixed.tuple.frame", &(h, t), &(0x5a, 0xa5));
            }
            Some(Err(e)) => m.fail("scale.fixed.tuple.roundtrip", "Ok", &format!("Err({e:?})")),
            None => {}
        }
    }
}

#[derive(parity_scale_codec::Encode, parity_scale_codec::Decode)]
struct CompactField<const B: usize, const L: usize> {
    head:  u8,
    #[codec(compact)]
    value: Uint<B, L>,
    tail:  u8,
}

fn op_scale_compact<const B: usize, const L: usize>(m: &mut Mon, limbs: &[u64]) {
    use parity_scale_codec as psc;
    use ruint::support::scale::{CompactRefUint, CompactUint};
    if B >= COMPACT_LIMIT {
        // documented panic by design; excluded from the property
        m.nontrivial(false);
        return;
    }
    let v: Uint<B, L> = uint(limbs);
    let want = ref_compact(limbs);
    m.obs(|| format!("compact={}", hexs(&want)));
    // The bytes, through the entry point that does not consult the size hint.
    let Some(bytes) = must_k(m, "scale.compact.encode_to.panic", || {
        let mut out: Vec<u8> = Vec::new();
        <CompactRefUint<'_, B, L> as psc::Encode>::encode_to(&CompactRefUint(&v), &mut out);
        out
    }) else {
        return;
    };
    bytes_eq(m, "scale.compact.bytes", &bytes, &want);
    if fits_u64(limbs) {
        let p = <psc::Compact<u64> as psc::Encode>::encode(&psc::Compact(lo_u64(limbs)));
        bytes_eq(m, "scale.compact.prim_u64", &bytes, &p);
    }
    if fits_u128(limbs) {
        let p = <psc::Compact<u128> as psc::Encode>::encode(&psc::Compact(lo_u128(limbs)));
        bytes_eq(m, "scale.compact.prim_u128", &bytes, &p);
    }
    // Advertised sizes.
    if let Some(size) = must_k(m, "scale.compact.encoded_size.panic", || {
        <CompactRefUint<'_, B, L> as psc::Encode>::encoded_size(&CompactRefUint(&v))
    }) {
        m.eq("scale.compact.encoded_size", &size, &bytes.len());
    }
    if let Some(hint) = must_k(m, "scale.compact.size_hint.panic", || {
        <CompactRefUint<'_, B, L> as psc::Encode>::size_hint(&CompactRefUint(&v))
    }) {
        // ruint computes the exact per-mode length here; report the two
        // directions separately (too small = reallocation / not a bound,
        // too large = over-allocation).
        m.check(hint >= bytes.len(), "scale.compact.size_hint.under", || bytes.len().to_string(), || hint.to_string());
        m.check(hint <= bytes.len(), "scale.compact.size_hint.over", || bytes.len().to_string(), || hint.to_string());
    }
    // `encode()` allocates `size_hint()` bytes first: the hint must not make it fail.
    if let Some(b2) = must_k(m, "scale.compact.encode.panic", || {
        <CompactRefUint<'_, B, L> as psc::Encode>::encode(&CompactRefUint(&v))
    }) {
        bytes_eq(m, "scale.compact.encode", &b2, &bytes);
    }
    // Decode.
    if let Some((r, rest)) = m.must(|| {
        let mut s = &bytes[..];
        let r = <CompactUint<B, L> as psc::Decode>::decode(&mut s).map(|c| c.0);
        (r, s.len())
    }) {
        let ok = r.is_ok();
        decoded(m, "scale.compact.roundtrip", Some(r), limbs);
        if ok {
            m.eq("scale.compact.decode.rest", &rest, &0usize);
        }
    }
    // `#[codec(compact)]` field in a derived struct.
    let f = CompactField::<B, L> { head: 0x5a, value: v, tail: 0xa5 };
    if let Some(sb) = must_k(m, "scale.compact.derive.encode.panic", || <CompactField<B, L> as psc::Encode>::encode(&f)) {
        let mut exp = vec![0x5a];
        exp.extend_from_slice(&want);
        exp.push(0xa5);
        bytes_eq(m, "scale.compact.derive.bytes", &sb, &exp);
    }
    let mut framed = vec![0x5a];
    framed.extend_from_slice(&bytes);
    framed.push(0xa5);
    match m.must(|| <CompactField<B, L> as psc::Decode>::decode(&mut &framed[..])) {
        Some(Ok(d)) => {
            m.eq_uint("scale.compact.derive.roundtrip", &d.value, limbs);
            m.eq("scale.compact.derive.frame", &(d.head, d.tail), &(0x5a, 0xa5));
        }
        Some(Err(e)) => m.fail("scale.compact.derive.roundtrip", "Ok", &format!("Err({e:?})")),
        None => {}
    }
}

// ---------------------------------------------------------------------------
// SSZ, borsh
// ---------------------------------------------------------------------------

fn op_ssz<const B: usize, const L: usize>(m: &mut Mon, limbs: &[u64]) {
    let v: Uint<B, L> = uint(limbs);
    let want = le_bytes(limbs, nbytes(B));
    m.obs(|| format!("ssz={}", hexs(&want)));
    let blen = m.must(|| <Uint<B, L> as ssz::Encode>::ssz_bytes_len(&v));
    let flen = m.must(<Uint<B, L> as ssz::Encode>::ssz_fixed_len);
    let dflen = m.must(<Uint<B, L> as ssz::Decode>::ssz_fixed_len);
    let fixed = m.must(|| (<Uint<B, L> as ssz::Encode>::is_ssz_fixed_len(), <Uint<B, L> as ssz::Decode>::is_ssz_fixed_len()));
    let Some(bytes) = m.must(|| <Uint<B, L> as ssz::Encode>::as_ssz_bytes(&v)) else {
        return;
    };
    bytes_eq(m, "ssz.bytes", &bytes, &want);
    if let Some(x) = blen {
        m.eq("ssz.bytes_len", &x, &bytes.len());
    }
    if let Some(x) = flen {
        m.eq("ssz.fixed_len", &x, &bytes.len());
    }
    if let Some(x) = dflen {
        m.eq("ssz.decode.fixed_len", &x, &bytes.len());
    }
    if let Some(x) = fixed {
        m.eq("ssz.is_fixed_len", &x, &(true, true));
    }
    if let Some(b2) = m.must(|| {
        let mut buf = vec![0x5a, 0xa5];
        <Uint<B, L> as ssz::Encode>::ssz_append(&v, &mut buf);
        buf
    }) {
        let mut exp = vec![0x5a, 0xa5];
        exp.extend_from_slice(&want);
        bytes_eq(m, "ssz.append", &b2, &exp);
    }
    ssz_prim(m, B, limbs, &bytes);
    let r = m.must(|| <Uint<B, L> as ssz::Decode>::from_ssz_bytes(&bytes));
    decoded(m, "ssz.roundtrip", r, limbs);
}

/// The ssz crate's own fixed-width unsigned integers.
fn ssz_prim(m: &mut Mon, bits: usize, limbs: &[u64], bytes: &[u8]) {
    let lo = lo_u64(limbs);
    let p = match bits {
        8 => ssz::Encode::as_ssz_bytes(&(lo as u8)),
        16 => ssz::Encode::as_ssz_bytes(&(lo as u16)),
        32 => ssz::Encode::as_ssz_bytes(&(lo as u32)),
        64 => ssz::Encode::as_ssz_bytes(&lo),
        128 => {
            let a = ssz::Encode::as_ssz_bytes(&lo_u128(limbs));
            let b = ssz::Encode::as_ssz_bytes(&primitive_types::U128([limbs[0], limbs[1]]));
            bytes_eq(m, "ssz.prim_U128", bytes, &b);
            a
        }
        256 => ssz::Encode::as_ssz_bytes(&primitive_types::U256([limbs[0], limbs[1], limbs[2], limbs[3]])),
        _ => return,
    };
    bytes_eq(m, "ssz.prim", bytes, &p);
}

fn op_borsh<const B: usize, const L: usize>(m: &mut Mon, limbs: &[u64]) {
    let v: Uint<B, L> = uint(limbs);
    let want = le_bytes(limbs, nbytes(B));
    m.obs(|| format!("borsh={}", hexs(&want)));
    let r = m.must(|| borsh::to_vec(&v));
    let Some(bytes) = encoded(m, "borsh.encode", r) else {
        return;
    };
    bytes_eq(m, "borsh.bytes", &bytes, &want);
    let lo = lo_u64(limbs);
    let p = match B {
        8 => Some(borsh::to_vec(&(lo as u8))),
        16 => Some(borsh::to_vec(&(lo as u16))),
        32 => Some(borsh::to_vec(&(lo as u32))),
        64 => Some(borsh::to_vec(&lo)),
        128 => Some(borsh::to_vec(&lo_u128(limbs))),
        _ => None,
    };
    if let Some(p) = p {
        bytes_eq(m, "borsh.prim", &bytes, &p.expect("harness: borsh primitive"));
    }
    let r = m.must(|| borsh::from_slice::<Uint<B, L>>(&bytes));
    decoded(m, "borsh.roundtrip", r, limbs);
    let r = m.must(|| <Uint<B, L> as borsh::BorshDeserialize>::try_from_slice(&bytes));
    decoded(m, "borsh.try_from_slice", r, limbs);
    // embedded between other fields: must consume exactly BYTES bytes
    let r = m.must(|| borsh::to_vec(&(true, v, 0xa5u8)));
    if let Some(tb) = encoded(m, "borsh.tuple.encode", r) {
        let mut exp = vec![1u8];
        exp.extend_from_slice(&want);
        exp.push(0xa5);
        bytes_eq(m, "borsh.tuple.bytes", &tb, &exp);
        match m.must(|| borsh::from_slice::<(bool, Uint<B, L>, u8)>(&tb)) {
            Some(Ok((h, d, t))) => {
                m.eq_uint("borsh.tuple.roundtrip", &d, limbs);
                m.eq("borsh.tuple.frame", &(h, t), &(true, 0xa5));
            }
            Some(Err(e)) => m.fail("borsh.tuple.roundtrip", "Ok", &format!("Err({e:?})")),
            None => {}
        }
    }
    let b = Bits::from(v);
    let r = m.must(|| borsh::to_vec(&b));
    if let Some(bb) = encoded(m, "borsh.bits.encode", r) {
        bytes_eq(m, "borsh.bits.bytes", &bb, &want);
        let r = m.must(|| borsh::from_slice::<Bits<B, L>>(&bb).map(Bits::into_inner));
        decoded(m, "borsh.bits.roundtrip", r, limbs);
    }
}

// ---------------------------------------------------------------------------
// DER
// ---------------------------------------------------------------------------

fn op_der<const B: usize, const L: usize>(m: &mut Mon, limbs: &[u64]) {
    use der::asn1::{Any, Int, Uint as DerUint};
    let v: Uint<B, L> = uint(limbs);
    let (content, want) = ref_der(limbs);
    m.obs(|| format!("der={}", hexs(&want)));
    let vlen = m.must(|| <Uint<B, L> as der::EncodeValue>::value_len(&v).map(u32::from));
    let elen = m.must(|| <Uint<B, L> as der::Encode>::encoded_len(&v).map(u32::from));
    let r = m.must(|| <Uint<B, L> as der::Encode>::to_der(&v));
    let Some(bytes) = encoded(m, "der.encode", r) else {
        return;
    };
    bytes_eq(m, "der.bytes", &bytes, &want);
    match vlen {
        Some(Ok(x)) => {
            // advertised content length vs. the content actually produced
            let header = if bytes.len() >= 2 && bytes[1] >= 0x80 { 2 + (bytes[1] & 0x7f) as usize } else { 2 };
            m.eq("der.value_len", &(x as usize), &bytes.len().saturating_sub(header));
        }
        Some(Err(e)) => m.fail("der.value_len", "Ok", &format!("Err({e:?})")),
        None => {}
    }
    match elen {
        Some(Ok(x)) => {
            m.eq("der.encoded_len", &(x as usize), &bytes.len());
        }
        Some(Err(e)) => m.fail("der.encoded_len", "Ok", &format!("Err({e:?})")),
        None => {}
    }
    if fits_u64(limbs) {
        let p = <u64 as der::Encode>::to_der(&lo_u64(limbs)).expect("harness: der u64");
        bytes_eq(m, "der.prim_u64", &bytes, &p);
    }
    if fits_u128(limbs) {
        let p = <u128 as der::Encode>::to_der(&lo_u128(limbs)).expect("harness: der u128");
        bytes_eq(m, "der.prim_u128", &bytes, &p);
    }
    let r = m.must(|| <Uint<B, L> as der::Decode>::from_der(&bytes));
    decoded(m, "der.roundtrip", r, limbs);

    // Conversions through the der crate's own ASN.1 value types.
    if let Some(any) = m.must(|| Any::from(&v)) {
        bytes_eq(m, "der.any.content", any.value(), &content);
        m.eq("der.any.tag", &der::Tagged::tag(&any), &der::Tag::Integer);
        let r = m.must(|| <Uint<B, L> as TryFrom<_>>::try_from(&any));
        decoded(m, "der.any.roundtrip", r, limbs);
        let r = m.must(|| <Uint<B, L> as TryFrom<_>>::try_from(der::asn1::AnyRef::from(&any)));
        decoded(m, "der.anyref.roundtrip", r, limbs);
    }
    if let Some(any) = m.must(|| Any::from(v)) {
        bytes_eq(m, "der.any.content", any.value(), &content);
        let r = m.must(|| <Uint<B, L> as TryFrom<_>>::try_from(any));
        decoded(m, "der.any.roundtrip", r, limbs);
    }
    if let Some(int) = m.must(|| Int::from(&v)) {
        bytes_eq(m, "der.int.content", int.as_bytes(), &content);
        let r = m.must(|| <Uint<B, L> as TryFrom<_>>::try_from(&int));
        decoded(m, "der.int.roundtrip", r, limbs);
        let r = m.must(|| <Uint<B, L> as TryFrom<_>>::try_from(der::asn1::IntRef::new(int.as_bytes()).expect("harness: IntRef")));
        decoded(m, "der.intref.roundtrip", r, limbs);
        let r = m.must(|| <Uint<B, L> as TryFrom<_>>::try_from(int));
        decoded(m, "der.int.roundtrip", r, limbs);
    }
    der_containers::<B, L>(m, limbs);
    if let Some(du) = m.must(|| DerUint::from(&v)) {
        // the der crate's unsigned view: magnitude without the sign octet
        let mut mag = be_min(limbs);
        if mag.is_empty() {
            mag.push(0);
        }
        bytes_eq(m, "der.uint.content", du.as_bytes(), &mag);
        let r = m.must(|| <Uint<B, L> as TryFrom<_>>::try_from(&du));
        decoded(m, "der.uint.roundtrip", r, limbs);
        let r = m.must(|| <Uint<B, L> as TryFrom<_>>::try_from(der::asn1::UintRef::new(du.as_bytes()).expect("harness: UintRef")));
        decoded(m, "der.uintref.roundtrip", r, limbs);
        let r = m.must(|| <Uint<B, L> as TryFrom<_>>::try_from(du));
        decoded(m, "der.uint.roundtrip", r, limbs);
    }
}

/// The value next to relatives derived from it (limb order reversed, low limb complemented, low and high limb
/// swapped, top byte moved down) inside the DER containers: SEQUENCE OF keeps the order, SET OF is sorted by the
/// elements' encodings (X.690 11.6), which is what the integration's `ValueOrd`/`DerOrd` impls have to deliver.
fn der_containers<const B: usize, const L: usize>(m: &mut Mon, limbs: &[u64]) {
    use der::{asn1::SetOfVec, Decode, DerOrd, Encode, ValueOrd};
    if L == 0 {
        return;
    }
    let mut rel: Vec<Vec<u64>> = vec![limbs.to_vec()];
    let mut t = limbs.to_vec();
    t.reverse();
    rel.push(gen::canon(t, B));
    let mut t = limbs.to_vec();
    t[0] = !t[0];
    rel.push(gen::canon(t, B));
    let mut t = limbs.to_vec();
    t.swap(0, L - 1);
    rel.push(gen::canon(t, B));
    let mut t = limbs.to_vec();
    t[0] = t[L - 1] >> 8 | t[0] << 56;
    rel.push(gen::canon(t, B));
    rel.push(gen::zero(B));
    let mut uniq: Vec<Vec<u64>> = vec![];
    for r in rel {
        if !uniq.contains(&r) {
            uniq.push(r);
        }
    }
    let vals: Vec<Uint<B, L>> = uniq.iter().map(|l| uint(l)).collect();
    let encs: Vec<(Vec<u8>, Vec<u8>)> = uniq.iter().map(|l| ref_der(l)).collect();
    // pairwise order of the encodings
    for i in 0..vals.len() {
        for j in 0..vals.len() {
            let want = encs[i].1.cmp(&encs[j].1);
            match must_k(m, "der.der_cmp", || vals[i].der_cmp(&vals[j])) {
                Some(Ok(o)) => {
                    m.check(o == want, "der.der_cmp", || format!("{want:?} (order of the DER encodings {} vs {})", hexs(&encs[i].1), hexs(&encs[j].1)), || format!("{o:?}"));
                }
                Some(Err(e)) => m.fail("der.der_cmp", "Ok", &format!("Err({e:?})")),
                None => {}
            }
            if encs[i].0.len() == encs[j].0.len() {
                let want = encs[i].0.cmp(&encs[j].0);
                match must_k(m, "der.value_cmp", || vals[i].value_cmp(&vals[j])) {
                    Some(Ok(o)) => {
                        m.check(o == want, "der.value_cmp", || format!("{want:?} (order of the content octets {} vs {})", hexs(&encs[i].0), hexs(&encs[j].0)), || format!("{o:?}"));
                    }
                    Some(Err(e)) => m.fail("der.value_cmp", "Ok", &format!("Err({e:?})")),
                    None => {}
                }
            }
        }
    }
    // SEQUENCE OF INTEGER
    let seq_want = der_tlv(0x30, &encs.iter().flat_map(|e| e.1.clone()).collect::<Vec<u8>>());
    let r = must_k(m, "der.seq.encode", || vals.to_der());
    if let Some(b) = encoded(m, "der.seq.encode", r) {
        if bytes_eq(m, "der.seq.bytes", &b, &seq_want) {
            match must_k(m, "der.seq.decode", || Vec::<Uint<B, L>>::from_der(&b)) {
                Some(Ok(back)) => {
                    m.check(back == vals, "der.seq.roundtrip", || format!("{vals:?}"), || format!("{back:?}"));
                }
                Some(Err(e)) => m.fail("der.seq.roundtrip", "Ok", &format!("Err({e:?})")),
                None => {}
            }
        }
    }
    // SET OF INTEGER: elements in ascending order of their encodings
    let mut sorted: Vec<usize> = (0..vals.len()).collect();
    sorted.sort_by(|a, b| encs[*a].1.cmp(&encs[*b].1));
    let set_want = der_tlv(0x31, &sorted.iter().flat_map(|i| encs[*i].1.clone()).collect::<Vec<u8>>());
    let sorted_vals: Vec<Uint<B, L>> = sorted.iter().map(|i| vals[*i]).collect();
    match must_k(m, "der.set.build", || SetOfVec::try_from(vals.clone())) {
        Some(Ok(set)) => {
            let r = must_k(m, "der.set.encode", || set.to_der());
            if let Some(b) = encoded(m, "der.set.encode", r) {
                bytes_eq(m, "der.set.bytes", &b, &set_want);
            }
        }
        Some(Err(e)) => m.fail("der.set.build", "Ok", &format!("Err({e:?})")),
        None => {}
    }
    match must_k(m, "der.set.decode", || SetOfVec::<Uint<B, L>>::from_der(&set_want)) {
        Some(Ok(set)) => {
            let back = set.into_vec();
            m.check(back == sorted_vals, "der.set.roundtrip", || format!("{sorted_vals:?}"), || format!("{back:?}"));
        }
        Some(Err(e)) => m.fail("der.set.decode", "Ok (canonical SET OF INTEGER)", &format!("Err({e:?})")),
        None => {}
    }
}

// ---------------------------------------------------------------------------
// postgres
// ---------------------------------------------------------------------------

fn pg_types() -> Vec<(postgres_types::Type, &'static str)> {
    use postgres_types::Type;
    vec![
        (Type::BOOL, "BOOL"),
        (Type::CHAR, "CHAR"),
        (Type::INT2, "INT2"),
        (Type::INT4, "INT4"),
        (Type::INT8, "INT8"),
        (Type::OID, "OID"),
        (Type::FLOAT4, "FLOAT4"),
        (Type::FLOAT8, "FLOAT8"),
        (Type::MONEY, "MONEY"),
        (Type::NUMERIC, "NUMERIC"),
        (Type::BYTEA, "BYTEA"),
        (Type::TEXT, "TEXT"),
        (Type::VARCHAR, "VARCHAR"),
        (Type::JSON, "JSON"),
        (Type::JSONB, "JSONB"),
        (Type::BIT, "BIT"),
        (Type::VARBIT, "VARBIT"),
    ]
}

/// postgres-types' own wire encoding of the equal primitive, where it has one.
fn pg_prim(name: &str, limbs: &[u64]) -> Option<Vec<u8>> {
    use postgres_types::{ToSql, Type};
    if !fits_u64(limbs) {
        return None;
    }
    let x = lo_u64(limbs);
    let mut out = bytes::BytesMut::new();
    let r = match name {
        "BOOL" if x <= 1 => (x == 1).to_sql(&Type::BOOL, &mut out),
        "INT2" if x <= i16::MAX as u64 => (x as i16).to_sql(&Type::INT2, &mut out),
        "INT4" if x <= i32::MAX as u64 => (x as i32).to_sql(&Type::INT4, &mut out),
        "INT8" if x <= i64::MAX as u64 => (x as i64).to_sql(&Type::INT8, &mut out),
        "OID" if x <= u64::from(u32::MAX) => (x as u32).to_sql(&Type::OID, &mut out),
        _ => return None,
    };
    r.expect("harness: postgres primitive");
    Some(out.to_vec())
}

fn op_postgres<const B: usize, const L: usize>(m: &mut Mon, limbs: &[u64]) {
    use postgres_types::{FromSql, IsNull, ToSql};
    let v: Uint<B, L> = uint(limbs);
    let mut okay: Vec<&'static str> = Vec::new();
    for (ty, name) in pg_types() {
        let float = matches!(name, "FLOAT4" | "FLOAT8");
        if let Some(acc) = m.must(|| (<Uint<B, L> as ToSql>::accepts(&ty), <Uint<B, L> as FromSql>::accepts(&ty))) {
            m.eq(&format!("postgres.accepts.{name}"), &acc, &(true, true));
        }
        let Some((r, raw)) = m.must(|| {
            let mut out = bytes::BytesMut::new();
            let r = <Uint<B, L> as ToSql>::to_sql(&v, &ty, &mut out);
            (r.map(|n| matches!(n, IsNull::No)).map_err(|e| e.to_string()), out.to_vec())
        }) else {
            continue;
        };
        match r {
            Err(_) => {
                // value does not fit the column type: outside the property
                continue;
            }
            Ok(false) => {
                m.fail(&format!("postgres.null.{name}"), "IsNull::No", "IsNull::Yes");
                continue;
            }
            Ok(true) => {}
        }
        okay.push(name);
        m.note_add(&format!("postgres.to_sql_ok.{name}"), 1);
        // `to_sql` appends: a buffer that already holds another column keeps it, and the same bytes follow
        if let Some(framed) = m.must(|| {
            let mut out = bytes::BytesMut::from(&[0x5au8, 0xa5][..]);
            let _ = <Uint<B, L> as ToSql>::to_sql(&v, &ty, &mut out);
            out.to_vec()
        }) {
            let mut exp = vec![0x5au8, 0xa5];
            exp.extend_from_slice(&raw);
            if float {
                // the float columns go through Uint -> f32/f64, whose exp2 Miri perturbs by random ULPs from call
                // to call: two encodings of the same value need not be equal there. Only the framing is judged.
                m.check(framed.len() == exp.len() && framed[..2] == exp[..2], &format!("postgres.append.{name}"),
                        || format!("prefix kept, {} bytes appended", raw.len()), || hexs(&framed));
            } else {
                bytes_eq(m, &format!("postgres.append.{name}"), &framed, &exp);
            }
        }
        let back = m.must(|| <Uint<B, L> as FromSql>::from_sql(&ty, &raw).map_err(|e| e.to_string()));
        if float {
            // lossy by nature: only "no panic" and canonical form
            if let Some(Ok(x)) = back {
                m.canonical(&x);
            }
            continue;
        }
        decoded(m, &format!("postgres.roundtrip.{name}"), back, limbs);
        if let Some(p) = pg_prim(name, limbs) {
            bytes_eq(m, &format!("postgres.prim.{name}"), &raw, &p);
        }
        match name {
            // documented: "JSON, JSONB as a hex string compatible with the Serde serialization"
            "JSON" => {
                bytes_eq(m, "postgres.json.text", &raw, format!("\"{}\"", ref_quantity(limbs)).as_bytes());
            }
            "JSONB" => {
                let mut exp = vec![1u8];
                exp.extend_from_slice(format!("\"{}\"", ref_quantity(limbs)).as_bytes());
                bytes_eq(m, "postgres.jsonb.text", &raw, &exp);
            }
            _ => {}
        }
    }
    m.obs(|| format!("round-tripped column types: {}", okay.join(",")));
}

// ---------------------------------------------------------------------------
// num-bigint
// ---------------------------------------------------------------------------

fn op_num_bigint<const B: usize, const L: usize>(m: &mut Mon, limbs: &[u64]) {
    let v: Uint<B, L> = uint(limbs);
    let bu = big::big(limbs);
    let bi = BigInt::from(bu.clone());
    m.obs(|| format!("biguint={}", big::bhex(&bu)));
    if let Some(x) = m.must(|| BigUint::from(v)) {
        m.eq("num_bigint.biguint.from", &x, &bu);
    }
    if let Some(x) = m.must(|| BigUint::from(&v)) {
        m.eq("num_bigint.biguint.from_ref", &x, &bu);
    }
    if let Some(x) = m.must(|| BigInt::from(v)) {
        m.eq("num_bigint.bigint.from", &x, &bi);
    }
    if let Some(x) = m.must(|| BigInt::from(&v)) {
        m.eq("num_bigint.bigint.from_ref", &x, &bi);
    }
    let r = m.must(|| <Uint<B, L> as TryFrom<_>>::try_from(bu.clone()));
    decoded(m, "num_bigint.biguint.roundtrip", r, limbs);
    let r = m.must(|| <Uint<B, L> as TryFrom<_>>::try_from(&bu));
    decoded(m, "num_bigint.biguint.roundtrip_ref", r, limbs);
    let r = m.must(|| <Uint<B, L> as TryFrom<_>>::try_from(bi.clone()));
    decoded(m, "num_bigint.bigint.roundtrip", r, limbs);
    let r = m.must(|| <Uint<B, L> as TryFrom<_>>::try_from(&bi));
    decoded(m, "num_bigint.bigint.roundtrip_ref", r, limbs);
}

// ---------------------------------------------------------------------------
// primitive-types (fixed widths)
// ---------------------------------------------------------------------------

macro_rules! pt_uint {
    ($m:ident, $limbs:ident, $w:literal, $l:literal, $theirs:ident) => {{
        let v: Uint<$w, $l> = uint($limbs);
        if let Some(t) = $m.must(|| primitive_types::$theirs::from(v)) {
            $m.check(t.0[..] == $limbs[..], "primitive_types.uint.limbs", || big::hex($limbs), || big::hex(&t.0));
            // the foreign type's own big-endian byte view
            let mut be = [0u8; $w / 8];
            t.to_big_endian(&mut be);
            bytes_eq($m, "primitive_types.uint.be_bytes", &be, &be_bytes($limbs, $w / 8));
            if let Some(back) = $m.must(|| <Uint<$w, $l> as From<_>>::from(t)) {
                $m.eq_uint("primitive_types.uint.roundtrip", &back, $limbs);
            }
        }
        // and starting from a foreign value built from the raw limbs
        let mut arr = [0u64; $l];
        arr.copy_from_slice($limbs);
        if let Some(x) = $m.must(|| <Uint<$w, $l> as From<_>>::from(primitive_types::$theirs(arr))) {
            $m.eq_uint("primitive_types.uint.from_theirs", &x, $limbs);
        }
    }};
}

macro_rules! pt_hash {
    ($m:ident, $limbs:ident, $w:literal, $l:literal, $theirs:ident) => {{
        let v: Uint<$w, $l> = uint($limbs);
        let b: Bits<$w, $l> = Bits::from(v);
        let want = be_bytes($limbs, $w / 8);
        if let Some(h) = $m.must(|| primitive_types::$theirs::from(b)) {
            bytes_eq($m, "primitive_types.hash.bytes", &h.0, &want);
            if let Some(back) = $m.must(|| Bits::<$w, $l>::from(h).into_inner()) {
                $m.eq_uint("primitive_types.hash.roundtrip", &back, $limbs);
            }
        }
        if let Some(x) = $m.must(|| Bits::<$w, $l>::from(primitive_types::$theirs::from_slice(&want)).into_inner()) {
            $m.eq_uint("primitive_types.hash.from_theirs", &x, $limbs);
        }
    }};
}

fn op_primitive_types(m: &mut Mon, bits: usize, limbs: &[u64]) {
    m.obs(|| format!("value={}", big::hex(limbs)));
    match bits {
        128 => {
            pt_uint!(m, limbs, 128, 2, U128);
            pt_hash!(m, limbs, 128, 2, H128);
        }
        160 => pt_hash!(m, limbs, 160, 3, H160),
        256 => {
            pt_uint!(m, limbs, 256, 4, U256);
            pt_hash!(m, limbs, 256, 4, H256);
        }
        512 => {
            pt_uint!(m, limbs, 512, 8, U512);
            pt_hash!(m, limbs, 512, 8, H512);
        }
        _ => panic!("harness: primitive_types not implemented at width {bits}"),
    }
}

// ---------------------------------------------------------------------------
// bytemuck (fixed widths)
// ---------------------------------------------------------------------------

macro_rules! pod_at {
    ($m:ident, $limbs:ident, $w:literal, $l:literal) => {{
        type U = Uint<$w, $l>;
        let v: U = uint($limbs);
        let mut arr = [0u64; $l];
        arr.copy_from_slice($limbs);
        // byte view of the limb array itself (same layout by `repr(transparent)`)
        let want: Vec<u8> = bytemuck::bytes_of(&arr).to_vec();
        let mut ne = Vec::with_capacity(8 * $l);
        for l in $limbs {
            ne.extend_from_slice(&l.to_ne_bytes());
        }
        assert!(ne == want, "harness: native limb bytes");
        if let Some(b) = $m.must(|| bytemuck::bytes_of(&v).to_vec()) {
            bytes_eq($m, "bytemuck.bytes_of", &b, &want);
        }
        // unaligned read at an odd offset
        let mut buf = vec![0u8; 1 + want.len()];
        buf[1..].copy_from_slice(&want);
        if let Some(x) = $m.must(|| bytemuck::pod_read_unaligned::<U>(&buf[1..])) {
            $m.eq_uint("bytemuck.pod_read_unaligned", &x, $limbs);
        }
        if let Some(x) = $m.must(|| bytemuck::cast::<U, [u64; $l]>(v)) {
            $m.eq("bytemuck.cast.to_limbs", &x, &arr);
        }
        if let Some(x) = $m.must(|| bytemuck::cast::<[u64; $l], U>(arr)) {
            $m.eq_uint("bytemuck.cast.from_limbs", &x, $limbs);
        }
        if let Some(x) = $m.must(|| *bytemuck::from_bytes::<U>(bytemuck::bytes_of(&arr))) {
            $m.eq_uint("bytemuck.from_bytes", &x, $limbs);
        }
        if let Some(x) = $m.must(|| {
            let mut z = <U as bytemuck::Zeroable>::zeroed();
            bytemuck::bytes_of_mut(&mut z).copy_from_slice(&want);
            z
        }) {
            $m.eq_uint("bytemuck.bytes_of_mut", &x, $limbs);
        }
    }};
}

fn op_bytemuck(m: &mut Mon, bits: usize, limbs: &[u64]) {
    m.obs(|| format!("value={}", big::hex(limbs)));
    match bits {
        64 => pod_at!(m, limbs, 64, 1),
        128 => pod_at!(m, limbs, 128, 2),
        192 => pod_at!(m, limbs, 192, 3),
        256 => pod_at!(m, limbs, 256, 4),
        320 => pod_at!(m, limbs, 320, 5),
        384 => pod_at!(m, limbs, 384, 6),
        448 => pod_at!(m, limbs, 448, 7),
        512 => pod_at!(m, limbs, 512, 8),
        1024 => pod_at!(m, limbs, 1024, 16),
        _ => panic!("harness: bytemuck Pod not implemented at width {bits}"),
    }
}

// ---------------------------------------------------------------------------
// ark-ff 0.3 (fixed widths) and 0.4 (generic)
// ---------------------------------------------------------------------------

fn modulus(dec: &str) -> BigUint {
    dec.parse().expect("harness: modulus literal")
}

macro_rules! ark03_big {
    ($m:ident, $limbs:ident, $w:literal, $l:literal, $ark:ident) => {{
        use ark_ff_03::biginteger::$ark;
        let v: Uint<$w, $l> = uint($limbs);
        if let Some(x) = $m.must(|| $ark::from(v)) {
            $m.check(x.0[..] == $limbs[..], "ark_ff_03.bigint.limbs", || big::hex($limbs), || big::hex(&x.0));
            if let Some(back) = $m.must(|| <Uint<$w, $l> as From<_>>::from(x)) {
                $m.eq_uint("ark_ff_03.bigint.roundtrip", &back, $limbs);
            }
            if let Some(back) = $m.must(|| <Uint<$w, $l> as From<_>>::from(&x)) {
                $m.eq_uint("ark_ff_03.bigint.roundtrip_ref", &back, $limbs);
            }
        }
        if let Some(x) = $m.must(|| $ark::from(&v)) {
            $m.check(x.0[..] == $limbs[..], "ark_ff_03.bigint.limbs_ref", || big::hex($limbs), || big::hex(&x.0));
        }
    }};
}

macro_rules! ark03_field {
    ($m:ident, $limbs:ident, $field:ident, $params:ident, $modulus:ident, $tag:literal) => {{
        use ark_ff_03::{FpParameters, PrimeField};
        let p = modulus($modulus);
        assert!(
            big::big(&<ark_bn254_03::$params as FpParameters>::MODULUS.0) == p,
            "harness: bn254 modulus literal disagrees with ark-bn254 0.3"
        );
        let v: Uint<256, 4> = uint($limbs);
        let in_field = big::big($limbs) < p;
        for by_ref in [false, true] {
            let r = $m.must(|| {
                if by_ref {
                    ark_bn254_03::$field::try_from(&v)
                } else {
                    ark_bn254_03::$field::try_from(v)
                }
            });
            match r {
                Some(Ok(f)) => {
                    $m.check(in_field, concat!("ark_ff_03.", $tag, ".not_in_field"), || "Err(NotInField) for value >= modulus".into(), || "Ok".into());
                    let repr = f.into_repr();
                    $m.check(repr.0[..] == $limbs[..], concat!("ark_ff_03.", $tag, ".repr"), || big::hex($limbs), || big::hex(&repr.0));
                    if let Some(back) = $m.must(|| <Uint<256, 4> as From<_>>::from(f)) {
                        $m.eq_uint(concat!("ark_ff_03.", $tag, ".roundtrip"), &back, $limbs);
                    }
                    if let Some(back) = $m.must(|| <Uint<256, 4> as From<_>>::from(&f)) {
                        $m.eq_uint(concat!("ark_ff_03.", $tag, ".roundtrip_ref"), &back, $limbs);
                    }
                }
                Some(Err(ruint::ToFieldError::NotInField)) => {
                    $m.check(!in_field, concat!("ark_ff_03.", $tag, ".not_in_field"), || "Ok for value < modulus".into(), || "Err(NotInField)".into());
                }
                None => {}
            }
        }
    }};
}

fn op_ark_ff_03(m: &mut Mon, bits: usize, limbs: &[u64]) {
    m.obs(|| format!("value={}", big::hex(limbs)));
    match bits {
        64 => ark03_big!(m, limbs, 64, 1, BigInteger64),
        128 => ark03_big!(m, limbs, 128, 2, BigInteger128),
        256 => {
            ark03_big!(m, limbs, 256, 4, BigInteger256);
            ark03_field!(m, limbs, Fr, FrParameters, BN254_FR, "fr");
            ark03_field!(m, limbs, Fq, FqParameters, BN254_FQ, "fq");
        }
        320 => ark03_big!(m, limbs, 320, 5, BigInteger320),
        384 => ark03_big!(m, limbs, 384, 6, BigInteger384),
        448 => ark03_big!(m, limbs, 448, 7, BigInteger448),
        _ => panic!("harness: ark-ff 0.3 not implemented at width {bits}"),
    }
}

fn op_ark_ff_04<const B: usize, const L: usize>(m: &mut Mon, limbs: &[u64]) {
    use ark_ff_04::BigInt as ArkBig;
    let v: Uint<B, L> = uint(limbs);
    m.obs(|| format!("value={}", big::hex(limbs)));
    if let Some(x) = m.must(|| ArkBig::<L>::from(v)) {
        m.check(x.0[..] == limbs[..], "ark_ff_04.bigint.limbs", || big::hex(limbs), || big::hex(&x.0));
        if let Some(back) = m.must(|| <Uint<B, L> as From<_>>::from(x)) {
            m.eq_uint("ark_ff_04.bigint.roundtrip", &back, limbs);
        }
        if let Some(back) = m.must(|| <Uint<B, L> as From<_>>::from(&x)) {
            m.eq_uint("ark_ff_04.bigint.roundtrip_ref", &back, limbs);
        }
    }
    if let Some(x) = m.must(|| ArkBig::<L>::from(&v)) {
        m.check(x.0[..] == limbs[..], "ark_ff_04.bigint.limbs_ref", || big::hex(limbs), || big::hex(&x.0));
    }
    match B {
        250 => ark04_fields::<250>(m, limbs),
        255 => ark04_fields::<255>(m, limbs),
        256 => ark04_fields::<256>(m, limbs),
        _ => {}
    }
}

macro_rules! ark04_field {
    ($m:ident, $limbs:ident, $field:ident, $modulus:ident, $tag:literal) => {{
        use ark_ff_04::PrimeField;
        let p = modulus($modulus);
        assert!(
            big::big(&<ark_bn254_04::$field as PrimeField>::MODULUS.0) == p,
            "harness: bn254 modulus literal disagrees with ark-bn254 0.4"
        );
        let v: Uint<B, 4> = uint($limbs);
        let in_field = big::big($limbs) < p;
        for by_ref in [false, true] {
            let r = $m.must(|| {
                if by_ref {
                    ark_bn254_04::$field::try_from(&v)
                } else {
                    ark_bn254_04::$field::try_from(v)
                }
            });
            match r {
                Some(Ok(f)) => {
                    $m.check(in_field, concat!("ark_ff_04.", $tag, ".not_in_field"), || "Err(NotInField) for value >= modulus".into(), || "Ok".into());
                    let repr = f.into_bigint();
                    $m.check(repr.0[..] == $limbs[..], concat!("ark_ff_04.", $tag, ".repr"), || big::hex($limbs), || big::hex(&repr.0));
                    if let Some(back) = $m.must(|| <Uint<B, 4> as From<_>>::from(f)) {
                        $m.eq_uint(concat!("ark_ff_04.", $tag, ".roundtrip"), &back, $limbs);
                    }
                    if let Some(back) = $m.must(|| <Uint<B, 4> as From<_>>::from(&f)) {
                        $m.eq_uint(concat!("ark_ff_04.", $tag, ".roundtrip_ref"), &back, $limbs);
                    }
                }
                Some(Err(ruint::ToFieldError::NotInField)) => {
                    $m.check(!in_field, concat!("ark_ff_04.", $tag, ".not_in_field"), || "Ok for value < modulus".into(), || "Err(NotInField)".into());
                }
                None => {}
            }
        }
    }};
}

/// bn254 scalar and base field on every 4-limb width.
fn ark04_fields<const B: usize>(m: &mut Mon, limbs: &[u64]) {
    ark04_field!(m, limbs, Fr, BN254_FR, "fr");
    ark04_field!(m, limbs, Fq, BN254_FQ, "fq");
}

// ---------------------------------------------------------------------------
// Dispatch
// ---------------------------------------------------------------------------

fn exec<const B: usize, const L: usize>(m: &mut Mon, op: &str, a: &[Arg]) {
    let limbs = a[0].u();
    assert!(limbs.len() == L, "harness: operand has {} limbs, width {} needs {}", limbs.len(), B, L);
    m.nontrivial(ge2(limbs));
    match op {
        "serde_json" => op_json::<B, L>(m, limbs),
        "bincode" => op_bincode::<B, L>(m, limbs),
        "rlp" => op_rlp::<B, L>(m, limbs),
        "alloy_rlp" => {
            if let Some(bytes) = op_alloy_rlp::<B, L>(m, limbs) {
                alloy_extra::<B, L>(m, limbs, &bytes);
            }
        }
        "fastrlp_03" => {
            if let Some(bytes) = op_fastrlp_03::<B, L>(m, limbs) {
                fastrlp_03_fixed(m, B, limbs, &bytes);
            }
        }
        "fastrlp_04" => {
            if let Some(bytes) = op_fastrlp_04::<B, L>(m, limbs) {
                fastrlp_04_fixed(m, B, limbs, &bytes);
            }
        }
        "scale_fixed" => op_scale_fixed::<B, L>(m, limbs),
        "scale_compact" => op_scale_compact::<B, L>(m, limbs),
        "ssz" => op_ssz::<B, L>(m, limbs),
        "borsh" => op_borsh::<B, L>(m, limbs),
        "der" => op_der::<B, L>(m, limbs),
        "postgres" => op_postgres::<B, L>(m, limbs),
        "num_bigint" => op_num_bigint::<B, L>(m, limbs),
        "primitive_types" => op_primitive_types(m, B, limbs),
        "bytemuck" => op_bytemuck(m, B, limbs),
        "ark_ff_03" => op_ark_ff_03(m, B, limbs),
        "ark_ff_04" => op_ark_ff_04::<B, L>(m, limbs),
        _ => panic!("harness: unknown op {op}"),
    }
}

/// The integrations that exist at a width.
fn ops_for(bits: usize) -> Vec<&'static str> {
    let mut v = vec![
        "serde_json", "bincode", "rlp", "alloy_rlp", "fastrlp_03", "fastrlp_04", "scale_fixed", "ssz", "borsh",
        "der", "postgres", "num_bigint", "ark_ff_04",
    ];
    if bits < COMPACT_LIMIT {
        v.push("scale_compact");
    }
    if matches!(bits, 128 | 160 | 256 | 512) {
        v.push("primitive_types");
    }
    if matches!(bits, 64 | 128 | 192 | 256 | 320 | 384 | 448 | 512 | 1024) {
        v.push("bytemuck");
    }
    if matches!(bits, 64 | 128 | 256 | 320 | 384 | 448) {
        v.push("ark_ff_03");
    }
    v
}

// ---------------------------------------------------------------------------
// Workload
// ---------------------------------------------------------------------------

/// Fixed, seed-independent corpus: small values in wide types and every
/// format's mode boundaries. In light lanes (Miri, memcheck) a value is thinned
/// with `Mon::keep` *before* it is computed, because there even building the
/// corpus is expensive; every surviving value is then run through all ops.
fn directed(m: &mut Mon, bits: usize) -> Vec<Vec<u64>> {
    if bits == 0 {
        return vec![vec![]];
    }
    let n = gen::nlimbs(bits);
    let mut seen: HashSet<Vec<u64>> = HashSet::new();
    let mut out: Vec<Vec<u64>> = Vec::new();
    let mut push = |v: &BigUint| {
        if big::fits(v, bits) {
            let l = big::limbs(v, n);
            if seen.insert(l.clone()) {
                out.push(l);
            }
        }
    };
    macro_rules! put {
        ($e:expr) => {
            if m.keep() {
                push(&$e);
            }
        };
    }
    for v in gen::boundary(bits) {
        put!(big::big(&v));
    }
    // small values in wide types
    for x in 0..=300u32 {
        put!(BigUint::from(x));
    }
    // mode boundaries of RLP (0x7f/0x80), SCALE compact (2^6, 2^14, 2^30),
    // postgres integer columns (2^15, 2^31, 2^32, 2^63), u64/u128 fast paths
    for k in [6usize, 7, 8, 14, 15, 16, 24, 30, 31, 32, 33, 56, 62, 63, 64, 65, 120, 126, 127, 128, 129] {
        for d in 0..=2u32 {
            put!(big::p2(k) + d);
            put!(big::p2(k) - d);
        }
    }
    // MONEY: largest i64 that survives *100
    for d in 0..=2u64 {
        put!(BigUint::from(92_233_720_368_547_758u64 - 1 + d));
    }
    // byte-length boundaries: 2^(8k)-1, 2^(8k), and the sign-bit boundary
    // 2^(8k-1) of DER; covers the 55/56-byte RLP and 127/128-byte DER cases
    for k in 1..=nbytes(bits) {
        put!(big::p2(8 * k) - 1u32);
        put!(big::p2(8 * k));
        put!(big::p2(8 * k) + 1u32);
        put!(big::p2(8 * k - 1) - 1u32);
        put!(big::p2(8 * k - 1));
        put!(big::p2(8 * k - 1) + 1u32);
    }
    // payloads of an exact byte length with a chosen top byte
    for len in [1usize, 2, 3, 4, 5, 7, 8, 9, 15, 16, 17, 31, 32, 33, 54, 55, 56, 57, 63, 64, 65, 66, 67, 68, 127, 128] {
        for top in [0x01u8, 0x7f, 0x80, 0xff] {
            put!({
                let mut be = vec![top];
                for i in 1..len {
                    be.push((i as u8).wrapping_mul(0x3d) ^ 0x5a);
                }
                BigUint::from_bytes_be(&be)
            });
            // and with zero low bytes (trailing zeros in LE/NUMERIC-like trimming)
            put!({
                let mut be = vec![top];
                be.resize(len, 0);
                BigUint::from_bytes_be(&be)
            });
        }
    }
    // NUMERIC: base-10000 digit boundaries, trailing zero digits are trimmed
    let t = BigUint::from(10_000u32);
    let mut p = BigUint::from(1u32);
    for k in 1..=80u32 {
        p *= &t;
        if !big::fits(&p, bits) {
            break;
        }
        if k <= 6 || k % 8 == 0 || k % 19 <= 1 || !big::fits(&(&p * &t * &t), bits) {
            put!(&p - 1u32);
            put!(p.clone());
            put!(&p + 1u32);
            put!(&p * 9999u32);
            put!(&p * 5u32);
        }
    }
    // bn254 moduli (ark-ff NotInField boundary)
    if bits >= 250 {
        for s in [BN254_FR, BN254_FQ] {
            for d in 0..=2u32 {
                put!(modulus(s) + d);
                put!(modulus(s) - d);
            }
        }
    }
    out
}

fn not_limbs(v: &[u64], bits: usize) -> Vec<u64> {
    gen::canon(v.iter().map(|x| !x).collect(), bits)
}

/// Widths at which every value is tried with every integration.
const EXHAUSTIVE_BITS: usize = 16;

fn workload(m: &mut Mon, bits: usize) {
    let ops = ops_for(bits);
    // Light lanes (Miri, memcheck) enumerate only up to 9 bits and sample the
    // wider "exhaustive" widths like any other width.
    if bits <= EXHAUSTIVE_BITS && !(m.is_light() && bits > 9) {
        // Exhaustive sub-space: all 2^BITS values.
        for op in &ops {
            for x in 0..(1u64 << bits) {
                if x % 1024 == 0 && m.time_up() {
                    return;
                }
                if !m.keep() {
                    continue;
                }
                m.case(op, bits, vec![au(&gen::small(x, bits))]);
            }
        }
        if !m.is_light() {
            m.mark_exhaustive(format!("all 2^{bits} values x all integrations at BITS={bits}"));
        }
        return;
    }
    // Directed corpus.
    let vals = directed(m, bits);
    for op in &ops {
        for (i, v) in vals.iter().enumerate() {
            if i % 512 == 0 && m.time_up() {
                return;
            }
            m.case(op, bits, vec![au(v)]);
        }
    }
    // Random: hostile shapes, random bit/byte lengths, small values in wide types.
    let mut r = m.stream("c16.random", bits);
    let iters = m.iters(if bits <= 64 { 16000 } else if bits <= 256 { 14000 } else if bits <= 512 { 10000 } else { 6000 });
    let mut done = 0;
    while done < iters {
        if m.time_up() {
            break;
        }
        let block = (iters - done).min(128);
        done += block;
        let mut vals: Vec<Vec<u64>> = Vec::with_capacity(block);
        for _ in 0..block {
            let v = match r.below(10) {
                0 | 1 | 2 => gen::hostile(&mut r, bits),
                3 | 4 => {
                    let len = r.range(0, bits);
                    gen::with_bit_len(&mut r, len, bits)
                }
                5 => {
                    // exact byte length, random top byte class
                    let bytes = r.range(1, nbytes(bits));
                    let len = (8 * bytes - r.below(8)).min(bits);
                    gen::with_bit_len(&mut r, len, bits)
                }
                6 => {
                    // small value in a wide type
                    let len = r.range(0, bits.min(34));
                    gen::with_bit_len(&mut r, len, bits)
                }
                7 => not_limbs(&gen::hostile(&mut r, bits), bits),
                8 => gen::alphabet(&mut r, bits),
                _ => gen::uniform(&mut r, bits),
            };
            vals.push(v);
        }
        for op in &ops {
            for v in &vals {
                m.case(op, bits, vec![au(v)]);
            }
        }
    }
}

fn main() {
    let mut m = Mon::new("C16", dispatch);
    if !m.replay_if_requested() {
        loop {
            for &bits in WIDTHS {
                if m.width_enabled(bits) {
                    workload(&mut m, bits);
                }
            }
            if !m.another_light_pass() {
                break;
            }
        }
    }
    m.finish();
}
