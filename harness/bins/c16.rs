//! C16 workload (under construction).
fn main() {}
