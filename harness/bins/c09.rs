//! C09 workload (under construction).
fn main() {}
