//! C09 — radix digit iterators and their inverses, string parsing, and the six
//! formatting traits vs positional notation.

use num_bigint::BigUint;
use num_traits::{ToPrimitive, Zero};
use ruint::{BaseConvertError, ParseError, Uint};
use std::{fmt, str::FromStr};
use vmon::{au, big, gen, rng::Rng, uint, Arg, Mon};

vmon::widths!(exec; 0, 1, 2, 3, 7, 8, 16, 31, 32, 60, 63, 64, 65, 100, 127, 128, 129, 189, 192,
    250, 255, 256, 257, 384, 512, 521, 1024, 2048);

// ---------------------------------------------------------------- reference formatting
struct Ref<'a>(&'a BigUint);
impl fmt::Display for Ref<'_> {
    fn fmt(&self, f: &mut fmt::Formatter<'_>) -> fmt::Result {
        f.pad_integral(true, "", &self.0.to_str_radix(10))
    }
}
impl fmt::Debug for Ref<'_> {
    fn fmt(&self, f: &mut fmt::Formatter<'_>) -> fmt::Result {
        f.pad_integral(true, "", &self.0.to_str_radix(10))
    }
}
impl fmt::Binary for Ref<'_> {
    fn fmt(&self, f: &mut fmt::Formatter<'_>) -> fmt::Result {
        f.pad_integral(true, "0b", &self.0.to_str_radix(2))
    }
}
impl fmt::Octal for Ref<'_> {
    fn fmt(&self, f: &mut fmt::Formatter<'_>) -> fmt::Result {
        f.pad_integral(true, "0o", &self.0.to_str_radix(8))
    }
}
impl fmt::LowerHex for Ref<'_> {
    fn fmt(&self, f: &mut fmt::Formatter<'_>) -> fmt::Result {
        f.pad_integral(true, "0x", &self.0.to_str_radix(16))
    }
}
impl fmt::UpperHex for Ref<'_> {
    fn fmt(&self, f: &mut fmt::Formatter<'_>) -> fmt::Result {
        f.pad_integral(true, "0x", &self.0.to_str_radix(16).to_uppercase())
    }
}

/// All flag combinations of the grid for one trait letter; `$w` is the runtime width.
macro_rules! fmt_grid {
    ($m:ident, $x:ident, $r:ident, $small:ident, $w:ident; $($t:literal),*) => {$(
        fmt_grid!(@one $m, $x, $r, $small, $w, concat!("{:", $t, "}"), concat!("{:", $t, "}"));
        fmt_grid!(@one $m, $x, $r, $small, $w, concat!("{:#", $t, "}"), concat!("{:#", $t, "}"));
        fmt_grid!(@one $m, $x, $r, $small, $w, concat!("{:+", $t, "}"), concat!("{:+", $t, "}"));
        fmt_grid!(@w $m, $x, $r, $small, $w, concat!("{:w$", $t, "}"));
        fmt_grid!(@w $m, $x, $r, $small, $w, concat!("{:0w$", $t, "}"));
        fmt_grid!(@w $m, $x, $r, $small, $w, concat!("{:#0w$", $t, "}"));
        fmt_grid!(@w $m, $x, $r, $small, $w, concat!("{:+0w$", $t, "}"));
        fmt_grid!(@w $m, $x, $r, $small, $w, concat!("{:#w$", $t, "}"));
        fmt_grid!(@w $m, $x, $r, $small, $w, concat!("{:<w$", $t, "}"));
        fmt_grid!(@w $m, $x, $r, $small, $w, concat!("{:>w$", $t, "}"));
        fmt_grid!(@w $m, $x, $r, $small, $w, concat!("{:^w$", $t, "}"));
        fmt_grid!(@w $m, $x, $r, $small, $w, concat!("{:*^w$", $t, "}"));
        fmt_grid!(@w $m, $x, $r, $small, $w, concat!("{:#>w$", $t, "}"));
        fmt_grid!(@w $m, $x, $r, $small, $w, concat!("{:_<#w$", $t, "}"));
        fmt_grid!(@w $m, $x, $r, $small, $w, concat!("{:0<+#w$", $t, "}"));
    )*};
    (@one $m:ident, $x:ident, $r:ident, $small:ident, $w:ident, $spec:expr, $spec2:expr) => {{
        if let Some(got) = $m.must_in("format", || format!($spec, $x)) {
            let want = format!($spec, $r);
            if got != want {
                $m.fail(concat!("fmt ", $spec), &want, &got);
            }
            if let Some(s) = $small {
                let prim = format!($spec, s);
                if got != prim {
                    $m.fail(concat!("fmt-vs-u128 ", $spec), &prim, &got);
                }
            }
        }
    }};
    (@w $m:ident, $x:ident, $r:ident, $small:ident, $w:ident, $spec:expr) => {{
        if let Some(got) = $m.must_in("format", || format!($spec, $x, w = $w)) {
            let want = format!($spec, $r, w = $w);
            if got != want {
                $m.fail(concat!("fmt ", $spec), &format!("w={} {}", $w, want), &got);
            }
            if let Some(s) = $small {
                let prim = format!($spec, s, w = $w);
                if got != prim {
                    $m.fail(concat!("fmt-vs-u128 ", $spec), &format!("w={} {}", $w, prim), &got);
                }
            }
        }
    }};
}

// ---------------------------------------------------------------- reference parsing
#[derive(Debug, PartialEq, Eq, Clone)]
enum Fault {
    Radix,         // radix > 64
    Base,          // radix < 2
    Char(char),    // first character outside the alphabet
    Digit(u64),    // first digit >= radix
    Overflow,
}

/// Digit value of `c` under the documented alphabets; None = ignored; Err = not in alphabet.
fn digit_of(c: char, radix: u64) -> Result<Option<u64>, ()> {
    if radix <= 36 {
        match c {
            '0'..='9' => Ok(Some(c as u64 - '0' as u64)),
            'a'..='z' => Ok(Some(c as u64 - 'a' as u64 + 10)),
            'A'..='Z' => Ok(Some(c as u64 - 'A' as u64 + 10)),
            '_' => Ok(None),
            _ => Err(()),
        }
    } else {
        match c {
            'A'..='Z' => Ok(Some(c as u64 - 'A' as u64)),
            'a'..='z' => Ok(Some(c as u64 - 'a' as u64 + 26)),
            '0'..='9' => Ok(Some(c as u64 - '0' as u64 + 52)),
            '+' | '-' => Ok(Some(62)),
            '/' | ',' | '_' => Ok(Some(63)),
            '=' | '\r' | '\n' => Ok(None),
            _ => Err(()),
        }
    }
}

/// All faults present in the input (each kind at most once) and the value if there is none.
fn ref_parse(src: &str, radix: u64, bits: usize) -> (Vec<Fault>, BigUint) {
    let mut faults = vec![];
    if radix > 64 {
        return (vec![Fault::Radix], BigUint::zero());
    }
    if radix < 2 {
        faults.push(Fault::Base);
    }
    let mut v = BigUint::zero();
    let mut overflow = false;
    for c in src.chars() {
        match digit_of(c, radix) {
            Err(()) => {
                if !faults.iter().any(|f| matches!(f, Fault::Char(_))) {
                    faults.push(Fault::Char(c));
                }
            }
            Ok(None) => {}
            Ok(Some(d)) => {
                if d >= radix {
                    if !faults.iter().any(|f| matches!(f, Fault::Digit(_))) {
                        faults.push(Fault::Digit(d));
                    }
                } else if radix >= 2 {
                    v = v * radix + d;
                    if !big::fits(&v, bits) {
                        overflow = true;
                        v = BigUint::zero(); // keep the accumulator small
                    }
                }
            }
        }
    }
    if overflow {
        faults.push(Fault::Overflow);
    }
    (faults, v)
}

fn check_parse<const B: usize, const L: usize>(m: &mut Mon, got: Result<Uint<B, L>, ParseError>, faults: &[Fault], v: &BigUint, radix: u64) {
    match (&got, faults) {
        (Ok(x), []) => {
            m.eq_uint("parse.value", x, &big::limbs(v, L));
        }
        (Ok(x), _) => {
            m.canonical(x);
            m.fail("parse.accepts-invalid", &format!("Err for faults {faults:?}"), &format!("Ok({})", big::hex(x.as_limbs())));
        }
        (Err(e), []) => m.fail("parse.rejects-valid", &format!("Ok({})", big::bhex(v)), &format!("{e:?}")),
        (Err(e), [single]) => {
            let want = match single {
                Fault::Radix => ParseError::InvalidRadix(radix),
                Fault::Base => ParseError::BaseConvertError(BaseConvertError::InvalidBase(radix)),
                Fault::Char(c) => ParseError::InvalidDigit(*c),
                Fault::Digit(d) => ParseError::BaseConvertError(BaseConvertError::InvalidDigit(*d, radix)),
                Fault::Overflow => ParseError::BaseConvertError(BaseConvertError::Overflow),
            };
            m.eq("parse.error-kind", e, &want);
        }
        (Err(_), _) => {} // several faults: any error is acceptable
    }
}

/// Drive a digit iterator through the consumption paths of `Iterator` other than plain `next`/`collect`
/// and compare every observation with the expected digit slice.
macro_rules! iter_protocol {
    ($m:ident, $label:literal, $mk:expr, $want:expr, $salt:expr) => {{
        let want: &[u64] = $want;
        let n = want.len();
        let salt: usize = $salt;
        if let Some((lo, hi)) = $m.must_in($label, || $mk.size_hint()) {
            $m.check(lo <= n && hi.map_or(true, |h| h >= n), concat!($label, ".size_hint"), || format!("bounds around {n}"), || format!("({lo}, {hi:?})"));
        }
        if let Some(v) = $m.must_in($label, || $mk.count()) {
            $m.eq(concat!($label, ".count"), &v, &n);
        }
        if let Some(v) = $m.must_in($label, || $mk.last()) {
            $m.eq(concat!($label, ".last"), &v, &want.last().copied());
        }
        for k in [0, 1, salt % (n + 2), n.saturating_sub(1), n, n + 1, n + 7] {
            if let Some(v) = $m.must_in($label, || $mk.nth(k)) {
                $m.eq(concat!($label, ".nth"), &v, &want.get(k).copied());
            }
            if let Some(v) = $m.must_in($label, || $mk.skip(k).collect::<Vec<u64>>()) {
                $m.eq(concat!($label, ".skip"), &v, &want[k.min(n)..].to_vec());
            }
            if let Some(v) = $m.must_in($label, || {
                // never call the iterator again after it returned None (the trait allows anything then)
                let mut it = $mk;
                let a = it.next();
                if a.is_none() {
                    return (a, None, None, true, 0);
                }
                let b = it.nth(k);
                if b.is_none() {
                    return (a, b, None, true, 0);
                }
                let c = it.next();
                if c.is_none() {
                    return (a, b, c, true, 0);
                }
                let (lo, hi) = it.size_hint();
                let rest = it.count();
                (a, b, c, lo <= rest && hi.map_or(true, |h| h >= rest), rest)
            }) {
                let e = (want.get(0).copied(), want.get(1 + k).copied(), want.get(2 + k).copied(), true, n.saturating_sub(3 + k));
                $m.eq(concat!($label, ".next-nth-next"), &v, &e);
            }
        }
        for st in [1, 2, 3, salt % 5 + 1, n.max(1), n + 1] {
            if let Some(v) = $m.must_in($label, || $mk.step_by(st).collect::<Vec<u64>>()) {
                $m.eq(concat!($label, ".step_by"), &v, &want.iter().copied().step_by(st).collect::<Vec<u64>>());
            }
        }
        if let Some(v) = $m.must_in($label, || {
            let mut it = $mk;
            let head: Vec<u64> = it.by_ref().take(salt % (n + 1)).collect();
            let tail: Vec<u64> = it.collect();
            (head, tail)
        }) {
            let cut = salt % (n + 1);
            $m.eq(concat!($label, ".take-then-rest"), &v, &(want[..cut].to_vec(), want[cut..].to_vec()));
        }
    }};
}

fn exec<const B: usize, const L: usize>(m: &mut Mon, op: &str, a: &[Arg]) {
    match op {
        "to_base" => {
            let limbs = a[0].u();
            let base = a[1].n() as u64;
            let x: Uint<B, L> = uint(limbs);
            let bv = big::big(limbs);
            if base < 2 {
                m.nontrivial(false);
                m.must_panic(|| x.to_base_le(base).count(), "base < 2");
                m.must_panic(|| x.to_base_be(base).count(), "base < 2");
                return;
            }
            // digits by repeated division
            let mut le: Vec<u64> = vec![];
            let mut t = bv.clone();
            let bb = BigUint::from(base);
            while !t.is_zero() {
                le.push((&t % &bb).to_u64().unwrap());
                t /= &bb;
            }
            let be: Vec<u64> = le.iter().rev().copied().collect();
            m.nontrivial(bv >= bb);
            m.obs(|| format!("{} digits in base {base}", le.len()));
            if let Some(v) = m.must_in("to_base_le", || x.to_base_le(base).collect::<Vec<u64>>()) {
                m.eq("to_base_le", &v, &le);
            }
            if let Some(v) = m.must_in("to_base_be", || x.to_base_be(base).collect::<Vec<u64>>()) {
                m.eq("to_base_be", &v, &be);
            }
            // the digit iterators driven through the other consumption paths of the Iterator trait
            // (nth / skip / step_by / count / last / size_hint, also after partial consumption)
            let salt = (limbs.first().copied().unwrap_or(0) ^ base.rotate_left(17)) as usize;
            if B <= 256 || salt % 8 == 0 {
                iter_protocol!(m, "to_base_le.iter", x.to_base_le(base), &le[..], salt);
                iter_protocol!(m, "to_base_be.iter", x.to_base_be(base), &be[..], salt);
            }
            if let Some(r) = m.must_in("from_base_le", || Uint::<B, L>::from_base_le(base, le.iter().copied())) {
                match r {
                    Ok(v) => {
                        m.eq_uint("from_base_le.roundtrip", &v, limbs);
                    }
                    Err(e) => m.fail("from_base_le.roundtrip", "Ok(value)", &format!("{e:?}")),
                }
            }
            if let Some(r) = m.must_in("from_base_be", || Uint::<B, L>::from_base_be(base, be.iter().copied())) {
                match r {
                    Ok(v) => {
                        m.eq_uint("from_base_be.roundtrip", &v, limbs);
                    }
                    Err(e) => m.fail("from_base_be.roundtrip", "Ok(value)", &format!("{e:?}")),
                }
            }
        }
        "from_base" => {
            // digits given most significant first
            let digits = a[0].u();
            let base = a[1].n() as u64;
            let le: Vec<u64> = digits.iter().rev().copied().collect();
            m.nontrivial(digits.len() >= 2);
            let mut faults: Vec<&str> = vec![];
            let mut v = BigUint::zero();
            if base < 2 {
                faults.push("base");
            } else {
                let mut ovf = false;
                let mut bad = None;
                for &d in digits {
                    if d >= base {
                        bad.get_or_insert(d);
                    } else {
                        v = v * base + d;
                        if !big::fits(&v, B) {
                            ovf = true;
                            v = BigUint::zero();
                        }
                    }
                }
                if bad.is_some() {
                    faults.push("digit");
                }
                if ovf {
                    faults.push("overflow");
                }
            }
            m.obs(|| format!("base={base} digits={} faults={faults:?}", digits.len()));
            for (name, r) in [
                ("from_base_be", m.must_in("from_base_be", || Uint::<B, L>::from_base_be(base, digits.iter().copied()))),
                ("from_base_le", m.must_in("from_base_le", || Uint::<B, L>::from_base_le(base, le.iter().copied()))),
            ] {
                let Some(r) = r else { continue };
                match (&r, faults.as_slice()) {
                    (Ok(x), []) => {
                        m.eq_uint(&format!("{name}.value"), x, &big::limbs(&v, L));
                    }
                    (Ok(x), _) => {
                        m.canonical(x);
                        m.fail(&format!("{name}.accepts-invalid"), &format!("Err for {faults:?}"), &format!("Ok({})", big::hex(x.as_limbs())));
                    }
                    (Err(e), []) => m.fail(&format!("{name}.rejects-valid"), &format!("Ok({})", big::bhex(&v)), &format!("{e:?}")),
                    (Err(e), [one]) => {
                        let ok = match (*one, e) {
                            ("base", BaseConvertError::InvalidBase(b)) => *b == base,
                            ("digit", BaseConvertError::InvalidDigit(d, b)) => *b == base && *d >= base && digits.contains(d),
                            ("overflow", BaseConvertError::Overflow) => true,
                            _ => false,
                        };
                        m.check(ok, &format!("{name}.error-kind"), || format!("error for single fault {one}"), || format!("{e:?}"));
                    }
                    (Err(_), _) => {}
                }
            }
        }
        "fmt" => {
            let limbs = a[0].u();
            let x: Uint<B, L> = uint(limbs);
            let bv = big::big(limbs);
            let w = a[1].us();
            let r = Ref(&bv);
            let small: Option<u128> = bv.to_u128();
            m.nontrivial(bv >= BigUint::from(10u8));
            m.obs(|| format!("display={} width={w}", bv.to_str_radix(10)));
            fmt_grid!(m, x, r, small, w; "", "?", "b", "o", "x", "X");
            if let Some(s) = m.must_in("to_string", || x.to_string()) {
                m.eq("to_string", &s, &bv.to_str_radix(10));
            }
        }
        "parse" => {
            let src = a[0].s();
            let radix = a[1].n() as u64;
            let (faults, v) = ref_parse(src, radix, B);
            m.nontrivial(src.chars().count() >= 2);
            m.obs(|| format!("radix={radix} faults={faults:?} value={}", big::bhex(&v)));
            if let Some(got) = m.must_in("from_str_radix", || Uint::<B, L>::from_str_radix(src, radix)) {
                check_parse(m, got, &faults, &v, radix);
            }
        }
        "from_str" => {
            let src = a[0].s();
            let (rest, radix) = if src.is_char_boundary(2) && src.len() >= 2 {
                match &src[..2] {
                    "0x" | "0X" => (&src[2..], 16u64),
                    "0o" | "0O" => (&src[2..], 8),
                    "0b" | "0B" => (&src[2..], 2),
                    _ => (src, 10),
                }
            } else {
                (src, 10)
            };
            let (faults, v) = ref_parse(rest, radix, B);
            m.nontrivial(src.chars().count() >= 2);
            m.obs(|| format!("radix={radix} faults={faults:?} value={}", big::bhex(&v)));
            if let Some(got) = m.must_in("from_str", || Uint::<B, L>::from_str(src)) {
                check_parse(m, got, &faults, &v, radix);
            }
            if let Some(got) = m.must_in("str::parse", || src.parse::<Uint<B, L>>()) {
                check_parse(m, got, &faults, &v, radix);
            }
        }
        _ => panic!("harness: unknown op {op}"),
    }
}

// ---------------------------------------------------------------- generators
const B64: &[u8] = b"ABCDEFGHIJKLMNOPQRSTUVWXYZabcdefghijklmnopqrstuvwxyz0123456789+/";

fn digit_char(r: &mut Rng, d: u64, radix: u64) -> char {
    if radix <= 36 {
        let c = std::char::from_digit(d as u32, 36).unwrap();
        if r.bool() {
            c.to_ascii_uppercase()
        } else {
            c
        }
    } else {
        let c = B64[d as usize] as char;
        match (c, r.below(3)) {
            ('+', 0) => '-',
            ('/', 0) => ',',
            ('/', 1) => '_',
            _ => c,
        }
    }
}

fn text_of(r: &mut Rng, v: &BigUint, radix: u64, decorate: bool) -> String {
    let mut s = String::new();
    let digits = if v.is_zero() { vec![0u8] } else { v.to_radix_be(radix as u32) };
    if decorate {
        for _ in 0..r.below(3) {
            s.push(digit_char(r, 0, radix));
        }
    }
    for d in digits {
        s.push(digit_char(r, u64::from(d), radix));
        if decorate && radix <= 36 && r.chance(1, 6) {
            s.push('_');
        }
    }
    s
}

fn insert_at(s: &str, r: &mut Rng, c: char) -> String {
    let idxs: Vec<usize> = s.char_indices().map(|(i, _)| i).chain([s.len()]).collect();
    let i = *r.pick(&idxs);
    let mut o = String::from(&s[..i]);
    o.push(c);
    o.push_str(&s[i..]);
    o
}

const BASES: &[u64] = &[2, 3, 7, 8, 10, 16, 36, 64, 255, 256, 10_000_000_000_000_000_000, 1 << 32, 1 << 63, u64::MAX, (1 << 60)];

/// Powers of ten, powers of two and their neighbours around the 8/16/24/32/48-bit marks, and a few other
/// bases people use for chunked output (seconds, 10^9 chunks, base 58/62/85).
const NATURAL_BASES: &[u64] = &[
    100, 1_000, 10_000, 100_000, 1_000_000, 10_000_000, 100_000_000, 1_000_000_000, 10_000_000_000,
    100_000_000_000, 1_000_000_000_000, 10_000_000_000_000, 100_000_000_000_000, 1_000_000_000_000_000,
    10_000_000_000_000_000, 100_000_000_000_000_000, 1_000_000_000_000_000_000,
    58, 60, 62, 85, 127, 128, 129, 257, 3600, 65_535, 65_536, 65_537, 86_400, (1 << 24) - 1, 1 << 24, (1 << 24) + 1,
    (1 << 31) - 1, 1 << 31, (1 << 31) + 1, (1 << 32) - 1, (1 << 32) + 1, 3_000_000_000, 4_000_000_000, (1 << 33) - 1,
    (1 << 48) - 1, (1 << 48) + 1, (1 << 62) + 1, (1 << 63) - 1, (1 << 63) + 1, u64::MAX - 1,
];

fn workload(m: &mut Mon, bits: usize) {
    let mut r = m.stream("c09.values", bits);
    let mut values = gen::boundary(bits);
    // values just above / below powers of each chunk base
    for cb in [10_000_000_000_000_000_000u128, 1 << 63, 1 << 60] {
        let mut p = BigUint::from(1u8);
        for _ in 0..6 {
            p *= cb;
            for d in [0i32, -1, 1] {
                let v = if d < 0 { &p - 1u8 } else { &p + d as u32 };
                if big::fits(&v, bits) {
                    values.push(big::limbs(&v, gen::nlimbs(bits)));
                }
            }
            // a chunk of all zeros in the middle: p * k
            let v = &p * 7u8;
            if big::fits(&v, bits) {
                values.push(big::limbs(&v, gen::nlimbs(bits)));
            }
        }
    }
    for _ in 0..m.iters(60) {
        values.push(gen::hostile(&mut r, bits));
    }
    values.sort();
    values.dedup();
    // ---- digit iterators
    for v in &values {
        if !m.keep() {
            continue;
        }
        for &b in BASES {
            m.case("to_base", bits, vec![au(v), Arg::N(b.into())]);
        }
        let rb = 2 + r.u64() % (u64::MAX - 2);
        m.case("to_base", bits, vec![au(v), Arg::N(rb.into())]);
        // bases of every magnitude: a uniform u64 is almost never below 2^60, and a digit spigot may
        // treat "fits 16 / 32 bits" differently from the rest
        for _ in 0..3 {
            let bl = r.range(2, 64);
            let sb = ((1u64 << (bl - 1)) | (r.u64() & ((1u64 << (bl - 1)) - 1))).max(2);
            m.case("to_base", bits, vec![au(v), Arg::N(sb.into())]);
        }
        let nb = NATURAL_BASES[r.below(NATURAL_BASES.len())];
        m.case("to_base", bits, vec![au(v), Arg::N(nb.into())]);
    }
    // dense sweep of the bases a user is likely to pick (powers of ten, 2^k and 2^k +- 1) over uniform and
    // hostile values: an error band of a few percent of the values of one base must not slip through
    for &nb in NATURAL_BASES {
        for i in 0..m.iters(12) {
            if !m.keep() {
                continue;
            }
            let v = if i % 2 == 0 { gen::uniform(&mut r, bits) } else { gen::hostile(&mut r, bits) };
            m.case("to_base", bits, vec![au(&v), Arg::N(nb.into())]);
        }
    }
    m.case("to_base", bits, vec![au(&gen::max(bits)), Arg::N(0)]);
    m.case("to_base", bits, vec![au(&gen::max(bits)), Arg::N(1)]);
    // ---- from_base with faults: overflow by one unit / one digit, bad digit, bad base
    let lim = big::p2(bits);
    let mut fb: Vec<u64> = BASES.to_vec();
    for k in 0..6 {
        fb.push(NATURAL_BASES[(bits + 7 * k) % NATURAL_BASES.len()]);
        let bl = r.range(2, 64);
        fb.push(((1u64 << (bl - 1)) | (r.u64() & ((1u64 << (bl - 1)) - 1))).max(2));
    }
    for &b in &fb {
        if !m.keep() {
            continue;
        }
        let bb = BigUint::from(b);
        let digits_of = |v: &BigUint| -> Vec<u64> {
            let mut le = vec![];
            let mut t = v.clone();
            while !t.is_zero() {
                le.push((&t % &bb).to_u64().unwrap());
                t /= &bb;
            }
            le.reverse();
            le
        };
        let max_d = digits_of(&(&lim - 1u8));
        let lim_d = digits_of(&lim);
        let lim1_d = digits_of(&(&lim + 1u8));
        m.case("from_base", bits, vec![au(&max_d), Arg::N(b.into())]);
        m.case("from_base", bits, vec![au(&lim_d), Arg::N(b.into())]); // overflow by exactly one unit
        m.case("from_base", bits, vec![au(&lim1_d), Arg::N(b.into())]);
        let mut one_more = max_d.clone();
        one_more.push(0); // overflow by one digit
        m.case("from_base", bits, vec![au(&one_more), Arg::N(b.into())]);
        let mut lead0 = vec![0, 0, 0];
        lead0.extend_from_slice(&max_d); // leading zero digits are fine
        m.case("from_base", bits, vec![au(&lead0), Arg::N(b.into())]);
        if !max_d.is_empty() && b < u64::MAX {
            let mut bad = max_d.clone();
            let i = r.below(bad.len());
            bad[i] = b; // digit equal to the base
            m.case("from_base", bits, vec![au(&bad), Arg::N(b.into())]);
            let mut bad = vec![0; max_d.len()];
            bad[i] = u64::MAX;
            m.case("from_base", bits, vec![au(&bad), Arg::N(b.into())]);
        }
        m.case("from_base", bits, vec![au(&[]), Arg::N(b.into())]);
        for _ in 0..m.iters(6) {
            let n = r.range(0, max_d.len() + 2);
            let ds: Vec<u64> = (0..n).map(|_| if r.chance(1, 12) { b.saturating_add(r.below(2) as u64) } else { r.u64() % b }).collect();
            m.case("from_base", bits, vec![au(&ds), Arg::N(b.into())]);
        }
    }
    m.case("from_base", bits, vec![au(&[0, 0]), Arg::N(0)]);
    m.case("from_base", bits, vec![au(&[0]), Arg::N(1)]);
    m.case("from_base", bits, vec![au(&[]), Arg::N(1)]);
    // ---- formatting grid: six traits x 18 flag combinations x widths
    for v in &values {
        if !m.keep() {
            continue;
        }
        for w in [1usize, 5, 20, 70, 140] {
            if w > 5 && r.chance(2, 3) {
                continue;
            }
            m.case("fmt", bits, vec![au(v), Arg::N(w as u128)]);
        }
        if m.time_up() {
            break;
        }
    }
    // ---- parsing: every radix 0..=65
    let mut r = m.stream("c09.parse", bits);
    for radix in 0..=65u64 {
        if !m.keep() {
            continue;
        }
        let rr = radix.clamp(2, 64);
        for k in 0..m.iters(10) {
            let v = match k % 5 {
                0 => &lim - 1u8,
                1 => lim.clone(),        // overflow by one unit
                2 => &lim * rr,          // overflow by one digit
                _ => big::big(&gen::hostile(&mut r, bits)),
            };
            let t = text_of(&mut r, &v, rr, k % 2 == 1);
            m.case("parse", bits, vec![Arg::S(t.clone()), Arg::N(radix.into())]);
            if k % 3 == 0 {
                // single invalid character
                let bad = if rr <= 36 { *r.pick(&['+', '-', '/', ',', '=', ' ', '.', 'é', '\u{200b}', '\n']) } else { *r.pick(&[' ', '.', '*', 'é', '!', '\t']) };
                m.case("parse", bits, vec![Arg::S(insert_at(&t, &mut r, bad)), Arg::N(radix.into())]);
                // digit equal to the radix
                if rr < 36 {
                    let c = std::char::from_digit(rr as u32, 36).unwrap();
                    m.case("parse", bits, vec![Arg::S(insert_at(&t, &mut r, c)), Arg::N(radix.into())]);
                } else if rr > 36 && rr < 64 {
                    let c = B64[rr as usize] as char;
                    m.case("parse", bits, vec![Arg::S(insert_at(&t, &mut r, c)), Arg::N(radix.into())]);
                }
            }
        }
        // every character class of the alphabet as a one-character string
        for c in ('0'..='9').chain('a'..='z').chain('A'..='Z').chain(['_', '+', '-', '/', ',', '=', ' ', '\r', '\n', 'é']) {
            m.case("parse", bits, vec![Arg::S(c.to_string()), Arg::N(radix.into())]);
        }
        m.case("parse", bits, vec![Arg::S(String::new()), Arg::N(radix.into())]);
    }
    for radix in [66u64, 100, 1 << 32, u64::MAX] {
        m.case("parse", bits, vec![Arg::S("10".into()), Arg::N(radix.into())]);
    }
    // ---- FromStr with prefixes
    for k in 0..m.iters(60) {
        if !m.keep() {
            continue;
        }
        let v = match k % 5 {
            0 => &lim - 1u8,
            1 => lim.clone(),
            _ => big::big(&gen::hostile(&mut r, bits)),
        };
        for (pfx, rr) in [("", 10u64), ("0x", 16), ("0X", 16), ("0o", 8), ("0O", 8), ("0b", 2), ("0B", 2)] {
            let t = format!("{pfx}{}", text_of(&mut r, &v, rr, k % 2 == 0));
            m.case("from_str", bits, vec![Arg::S(t.clone())]);
            if k % 4 == 0 {
                let bad = *r.pick(&['g', 'z', ' ', '-', '+', '.', 'é', 'x', '9', '8', '2']);
                m.case("from_str", bits, vec![Arg::S(insert_at(&t, &mut r, bad))]);
            }
        }
    }
    for t in ["", "0", "0x", "0b", "0o", "x", "0x_", "_", "__", "0_", "00x1", "0xg", "0b2", "0o8", "1e3", " 1", "1 ", "+1", "-1", "é", "0é", "１２"] {
        m.case("from_str", bits, vec![Arg::S(t.to_string())]);
    }
}

fn main() {
    let mut m = Mon::new("C09", dispatch);
    if !m.replay_if_requested() {
        loop {
            for &bits in WIDTHS {
                if m.width_enabled(bits) {
                    workload(&mut m, bits);
                }
            }
            if !m.another_light_pass() {
                break;
            }
        }
    }
    m.finish();
}
