//! C05 — shifts (value and lost-bit flags), rotations, arithmetic shift,
//! every integer-typed << / >> overload and Uint-typed shift amounts.

use num_bigint::BigUint;
use num_traits::Zero;
use ruint::Uint;
use vmon::{an, au, big, gen, uint, Arg, Mon};

vmon::widths!(exec; 0, 1, 2, 3, 7, 8, 16, 31, 32, 33, 60, 63, 64, 65, 100, 127, 128, 129, 160, 192, 193,
    250, 255, 256, 257, 320, 384, 512, 521, 1024, 2048, 4096, 4160, 16448);

/// Expected (value, lost-bits flag) of a left shift by `s`.
fn shl_oracle(v: &BigUint, s: u128, bits: usize) -> (Vec<u64>, bool) {
    if v.is_zero() {
        return (gen::zero(bits), false);
    }
    if s >= bits as u128 {
        return (gen::zero(bits), true);
    }
    let e = v << (s as usize);
    (big::wrap(&e, bits), !big::fits(&e, bits))
}

fn shr_oracle(v: &BigUint, s: u128, bits: usize) -> (Vec<u64>, bool) {
    if v.is_zero() {
        return (gen::zero(bits), false);
    }
    if s >= bits as u128 {
        return (gen::zero(bits), true);
    }
    let s = s as usize;
    let q = v >> s;
    let lost = !(v % big::p2(s)).is_zero();
    (big::limbs(&q, gen::nlimbs(bits)), lost)
}

macro_rules! typed_shifts {
    ($m:ident, $x:ident, $s:ident, $e_shl:ident, $e_shr:ident, $do_shl:ident; $($t:ty),*) => {$(
        if let Ok(amt) = <$t>::try_from($s) {
            if $do_shl {
                if let Some(v) = $m.must(|| $x << amt) { $m.eq_uint(concat!("op<<.", stringify!($t), ".v"), &v, &$e_shl); }
                if let Some(v) = $m.must(|| $x << &amt) { $m.eq_uint(concat!("op<<.", stringify!($t), ".r"), &v, &$e_shl); }
                if let Some(v) = $m.must(|| { let mut z = $x; z <<= amt; z }) { $m.eq_uint(concat!("op<<=.", stringify!($t), ".v"), &v, &$e_shl); }
                if let Some(v) = $m.must(|| { let mut z = $x; z <<= &amt; z }) { $m.eq_uint(concat!("op<<=.", stringify!($t), ".r"), &v, &$e_shl); }
            } else {
                if let Some(v) = $m.must(|| $x >> amt) { $m.eq_uint(concat!("op>>.", stringify!($t), ".v"), &v, &$e_shr); }
                if let Some(v) = $m.must(|| $x >> &amt) { $m.eq_uint(concat!("op>>.", stringify!($t), ".r"), &v, &$e_shr); }
                if let Some(v) = $m.must(|| { let mut z = $x; z >>= amt; z }) { $m.eq_uint(concat!("op>>=.", stringify!($t), ".v"), &v, &$e_shr); }
                if let Some(v) = $m.must(|| { let mut z = $x; z >>= &amt; z }) { $m.eq_uint(concat!("op>>=.", stringify!($t), ".r"), &v, &$e_shr); }
            }
        }
    )*};
}

fn exec<const B: usize, const L: usize>(m: &mut Mon, op: &str, a: &[Arg]) {
    let x: Uint<B, L> = uint(a[0].u());
    let bv = big::big(a[0].u());
    match op {
        "shl" => {
            let s128 = a[1].n();
            let s = s128 as usize;
            let (e, lost) = shl_oracle(&bv, s128, B);
            m.nontrivial(!bv.is_zero() && s != 0);
            m.obs(|| format!("value={} lost_bits={}", big::hex(&e), lost));
            if let Some((v, f)) = m.must(|| x.overflowing_shl(s)) {
                m.eq_uint("overflowing_shl.value", &v, &e);
                m.eq("overflowing_shl.flag", &f, &lost);
            }
            if let Some(v) = m.must(|| x.wrapping_shl(s)) {
                m.eq_uint("wrapping_shl", &v, &e);
            }
            if let Some(v) = m.must(|| x.checked_shl(s)) {
                match v {
                    Some(v) => {
                        if m.eq("checked_shl.some", &true, &!lost) {
                            m.eq_uint("checked_shl.value", &v, &e);
                        }
                    }
                    None => {
                        m.eq("checked_shl.none", &true, &lost);
                    }
                }
            }
            if let Some(v) = m.must(|| x.saturating_shl(s)) {
                let es = if lost { gen::max(B) } else { e.clone() };
                m.eq_uint("saturating_shl", &v, &es);
            }
            let do_shl = true;
            let dummy = &e;
            typed_shifts!(m, x, s128, e, dummy, do_shl; usize, u8, u16, u32, u64, isize, i8, i16, i32, i64);
        }
        "shr" => {
            let s128 = a[1].n();
            let s = s128 as usize;
            let (e, lost) = shr_oracle(&bv, s128, B);
            m.nontrivial(!bv.is_zero() && s != 0);
            m.obs(|| format!("value={} lost_bits={}", big::hex(&e), lost));
            if let Some((v, f)) = m.must(|| x.overflowing_shr(s)) {
                m.eq_uint("overflowing_shr.value", &v, &e);
                m.eq("overflowing_shr.flag", &f, &lost);
            }
            if let Some(v) = m.must(|| x.wrapping_shr(s)) {
                m.eq_uint("wrapping_shr", &v, &e);
            }
            if let Some(v) = m.must(|| x.checked_shr(s)) {
                match v {
                    Some(v) => {
                        if m.eq("checked_shr.some", &true, &!lost) {
                            m.eq_uint("checked_shr.value", &v, &e);
                        }
                    }
                    None => {
                        m.eq("checked_shr.none", &true, &lost);
                    }
                }
            }
            // arithmetic shift replicates bit BITS-1
            if B > 0 {
                let sign = a[0].u()[(B - 1) / 64] >> ((B - 1) % 64) & 1 == 1;
                let mut ea = e.clone();
                if sign {
                    let k = s.min(B);
                    // top k bits set
                    let fill = gen::ones(B, B).iter().zip(gen::ones(B - k, B).iter()).map(|(h, l)| h & !l).collect::<Vec<u64>>();
                    for (x, f) in ea.iter_mut().zip(fill.iter()) {
                        *x |= f;
                    }
                }
                if let Some(v) = m.must(|| x.arithmetic_shr(s)) {
                    m.eq_uint("arithmetic_shr", &v, &ea);
                }
            } else if let Some(v) = m.must(|| x.arithmetic_shr(s)) {
                m.eq_uint("arithmetic_shr", &v, &[]);
            }
            let do_shl = false;
            let dummy = &e;
            typed_shifts!(m, x, s128, dummy, e, do_shl; usize, u8, u16, u32, u64, isize, i8, i16, i32, i64);
        }
        "rot" => {
            let s = a[1].n() as usize;
            m.nontrivial(!bv.is_zero() && s != 0);
            let (el, er) = if B == 0 {
                (vec![], vec![])
            } else {
                let k = s % B;
                let full = big::p2(B);
                let l = ((&bv << k) % &full) | (&bv >> (B - k));
                let r = (&bv >> k) | ((&bv << (B - k)) % &full);
                (big::limbs(&l, L), big::limbs(&r, L))
            };
            m.obs(|| format!("left={} right={}", big::hex(&el), big::hex(&er)));
            if let Some(v) = m.must(|| x.rotate_left(s)) {
                m.eq_uint("rotate_left", &v, &el);
            }
            if let Some(v) = m.must(|| x.rotate_right(s)) {
                m.eq_uint("rotate_right", &v, &er);
            }
        }
        "shift_uint" => {
            // shift amount given as a Uint of the same width, any magnitude
            let amt: Uint<B, L> = uint(a[1].u());
            let ba = big::big(a[1].u());
            let s128: u128 = if ba.bits() > 100 { u128::MAX } else { ba.iter_u64_digits().enumerate().map(|(i, d)| u128::from(d) << (64 * i)).sum() };
            let (el, _) = shl_oracle(&bv, s128, B);
            let (er, _) = shr_oracle(&bv, s128, B);
            m.nontrivial(!bv.is_zero() && !ba.is_zero());
            m.obs(|| format!("shl={} shr={}", big::hex(&el), big::hex(&er)));
            if let Some(v) = m.must(|| x << amt) {
                m.eq_uint("op<<.Uint.v", &v, &el);
            }
            if let Some(v) = m.must(|| x << &amt) {
                m.eq_uint("op<<.Uint.r", &v, &el);
            }
            if let Some(v) = m.must(|| {
                let mut z = x;
                z <<= amt;
                z
            }) {
                m.eq_uint("op<<=.Uint.v", &v, &el);
            }
            if let Some(v) = m.must(|| {
                let mut z = x;
                z <<= &amt;
                z
            }) {
                m.eq_uint("op<<=.Uint.r", &v, &el);
            }
            if let Some(v) = m.must(|| x >> amt) {
                m.eq_uint("op>>.Uint.v", &v, &er);
            }
            if let Some(v) = m.must(|| x >> &amt) {
                m.eq_uint("op>>.Uint.r", &v, &er);
            }
            if let Some(v) = m.must(|| {
                let mut z = x;
                z >>= amt;
                z
            }) {
                m.eq_uint("op>>=.Uint.v", &v, &er);
            }
            if let Some(v) = m.must(|| {
                let mut z = x;
                z >>= &amt;
                z
            }) {
                m.eq_uint("op>>=.Uint.r", &v, &er);
            }
        }
        _ => panic!("harness: unknown op {op}"),
    }
}

fn all3(m: &mut Mon, bits: usize, v: &[u64], s: usize) {
    m.case("shl", bits, vec![au(v), an(s)]);
    m.case("shr", bits, vec![au(v), an(s)]);
    m.case("rot", bits, vec![au(v), an(s)]);
}

fn workload(m: &mut Mon, bits: usize) {
    let l = gen::nlimbs(bits);
    let top = bits + 64 * l + 1;
    // Interpreter lanes: the amounts at which the limb offset or the bit offset degenerates (0, one whole limb, BITS,
    // 64 * LIMBS) on all-ones and on the sign-bit value, unthinned - the per-operation decay executes one or two
    // amounts per width otherwise (seeded change C05-L: a limb read at index LIMBS for amount 0 at BITS % 64 = 0).
    if m.is_light() {
        let mut idx = 0u64;
        for v in [gen::max(bits), if bits > 0 { gen::pow2(bits - 1, bits) } else { gen::zero(bits) }] {
            for s in [0usize, 64, bits, 64 * l] {
                for op in ["shl", "shr", "rot"] {
                    idx += 1;
                    if m.light_owns(idx, op) {
                        m.case_always(op, bits, vec![au(&v), an(s)]);
                    }
                }
            }
        }
    }
    let full_grid = bits <= 64 || (bits <= 257 && m.cfg.scale >= 8.0);
    // positions of the single set bit
    let positions: Vec<usize> = if bits == 0 {
        vec![]
    } else if full_grid {
        (0..bits).collect()
    } else {
        let mut p = vec![0, 1, bits - 1, bits.saturating_sub(2), bits / 2];
        for k in (64..bits).step_by(64) {
            p.extend([k - 1, k, k + 1]);
        }
        p.retain(|&x| x < bits);
        p.sort_unstable();
        p.dedup();
        p
    };
    let amounts: Vec<usize> = if bits <= 257 {
        (0..=top).collect()
    } else {
        let mut s = vec![0, 1, 2, 31, 32, 33, 63, 64, 65, 127, 128, 129, bits - 1, bits, bits + 1, 64 * l - 1, 64 * l, 64 * l + 1, top];
        for k in (64..bits).step_by(if bits > 1024 { 512 } else { 64 }) {
            s.extend([k - 1, k, k + 1]);
        }
        s.sort_unstable();
        s.dedup();
        s
    };
    let mut values: Vec<Vec<u64>> = positions.iter().map(|&p| gen::pow2(p, bits)).collect();
    values.push(gen::max(bits));
    values.push(gen::zero(bits));
    let mut r = m.stream("c05.values", bits);
    for _ in 0..3 {
        values.push(gen::alphabet(&mut r, bits));
    }
    if bits > 1 {
        // single zero bits
        for &p in positions.iter().take(8) {
            let mut v = gen::max(bits);
            v[p / 64] &= !(1 << (p % 64));
            values.push(v);
        }
    }
    for v in &values {
        for &s in &amounts {
            if !m.keep() {
                continue;
            }
            all3(m, bits, v, s);
        }
        if m.time_up() {
            break;
        }
    }
    if bits <= 257 && !m.is_light() {
        m.mark_exhaustive(format!(
            "BITS={bits}: every shift amount in [0, BITS+64*LIMBS+1] x {} single-bit positions (+ all-ones, zero, alphabet values)",
            positions.len()
        ));
    }
    // huge amounts through the usize methods and operators
    for &s in &[usize::MAX, usize::MAX - 1, 1usize << 32, (1usize << 32) + 1, 1usize << 63, u32::MAX as usize, i32::MAX as usize, 65535, 65536] {
        for v in values.iter().take(3).chain(values.iter().rev().take(5)) {
            all3(m, bits, v, s);
        }
    }
    // Uint-typed amounts of any magnitude
    let mut r = m.stream("c05.uint", bits);
    let mut amts: Vec<Vec<u64>> = vec![gen::zero(bits), gen::small(1, bits), gen::small(63, bits), gen::small(64, bits),
        gen::small(65, bits), gen::small(bits as u64, bits), gen::small(bits as u64 + 1, bits),
        gen::small(bits.saturating_sub(1) as u64, bits), gen::max(bits), gen::small(u64::MAX, bits)];
    if bits > 64 {
        amts.push(gen::pow2(64, bits)); // 2^64: low limb zero
        let mut v = gen::pow2(64, bits);
        v[0] = 3;
        amts.push(v); // 2^64 + 3
        amts.push(gen::pow2(bits - 1, bits));
        let mut v = gen::pow2(bits - 1, bits);
        v[0] = 1;
        amts.push(v);
    }
    for _ in 0..m.iters(40) {
        amts.push(gen::hostile(&mut r, bits));
        amts.push(gen::small(r.below(top + 2) as u64, bits));
    }
    for amt in &amts {
        for v in values.iter().take(4).chain(values.iter().rev().take(6)) {
            if !m.keep() {
                continue;
            }
            m.case("shift_uint", bits, vec![au(v), au(amt)]);
        }
    }
    // random
    let mut r = m.stream("c05.random", bits);
    let iters = m.iters(if bits <= 256 { 4000 } else if bits <= 1024 { 1500 } else { 400 });
    for i in 0..iters {
        if i % 256 == 0 && m.time_up() {
            break;
        }
        let v = gen::hostile(&mut r, bits);
        let s = match r.below(6) {
            0 => r.below(top + 2),
            1 => 64 * r.below(l + 2),
            2 => (64 * r.below(l + 2)).saturating_sub(1),
            3 => bits.saturating_sub(r.below(3)),
            4 => bits + r.below(3),
            _ => r.below(bits + 1),
        };
        all3(m, bits, &v, s);
        if i % 4 == 0 {
            let amt = if r.bool() { gen::small(s as u64, bits) } else { gen::hostile(&mut r, bits) };
            m.case("shift_uint", bits, vec![au(&v), au(&amt)]);
        }
    }
}

fn main() {
    let mut m = Mon::new("C05", dispatch);
    if !m.replay_if_requested() {
        loop {
            for &bits in WIDTHS {
                if m.width_enabled(bits) {
                    workload(&mut m, bits);
                }
            }
            if !m.another_light_pass() {
                break;
            }
        }
    }
    m.finish();
}
