//! C05 workload (under construction).
fn main() {}
