//! C03 workload (under construction).
fn main() {}
