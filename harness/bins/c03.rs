//! C03 — division and remainder through the Uint API vs BigUint, with the
//! coverage hooks showing which Knuth / MG10 paths each workload reached.

use num_bigint::BigUint;
use num_traits::{One, Zero};
use ruint::Uint;
use vmon::{au, big, divgen, gen, uint, Arg, Mon};

vmon::widths!(exec; 0, 1, 2, 3, 4, 7, 8, 31, 32, 60, 63, 64, 65, 100, 127, 128, 129, 160, 192, 193,
    250, 255, 256, 257, 320, 384, 512, 521, 768, 1024, 2048, 4096);

fn exec<const B: usize, const L: usize>(m: &mut Mon, op: &str, a: &[Arg]) {
    match op {
        "divrem" => {
            let (x, y): (Uint<B, L>, Uint<B, L>) = (uint(a[0].u()), uint(a[1].u()));
            let (bn, bd) = (big::big(a[0].u()), big::big(a[1].u()));
            if bd.is_zero() {
                m.nontrivial(false);
                // panicking forms panic, checked forms return None
                m.must_panic(|| x.div_rem(y), "zero divisor");
                m.must_panic(|| x / y, "zero divisor");
                m.must_panic(|| x % y, "zero divisor");
                m.must_panic(|| &x / &y, "zero divisor");
                m.must_panic(|| &x % &y, "zero divisor");
                m.must_panic(
                    || {
                        let mut z = x;
                        z /= y;
                        z
                    },
                    "zero divisor",
                );
                m.must_panic(
                    || {
                        let mut z = x;
                        z %= y;
                        z
                    },
                    "zero divisor",
                );
                m.must_panic(|| x.wrapping_div(y), "zero divisor");
                m.must_panic(|| x.wrapping_rem(y), "zero divisor");
                m.must_panic(|| x.div_ceil(y), "zero divisor");
                m.must_panic(|| x.next_multiple_of(y), "zero divisor");
                if let Some(v) = m.must(|| x.checked_div(y)) {
                    m.eq("checked_div.zero", &v.is_none(), &true);
                }
                if let Some(v) = m.must(|| x.checked_rem(y)) {
                    m.eq("checked_rem.zero", &v.is_none(), &true);
                }
                if let Some(v) = m.must(|| x.checked_next_multiple_of(y)) {
                    m.eq("checked_next_multiple_of.zero", &v.is_none(), &true);
                }
                return;
            }
            let q = &bn / &bd;
            let r = &bn % &bd;
            let (eq, er) = (big::limbs(&q, L), big::limbs(&r, L));
            m.nontrivial(bd > BigUint::one() && bn >= bd);
            m.obs(|| format!("q={} r={}", big::hex(&eq), big::hex(&er)));
            if let Some((vq, vr)) = m.must(|| x.div_rem(y)) {
                m.eq_uint("div_rem.q", &vq, &eq);
                m.eq_uint("div_rem.r", &vr, &er);
            }
            if let Some(v) = m.must(|| x / y) {
                m.eq_uint("op/.vv", &v, &eq);
            }
            if let Some(v) = m.must(|| x / &y) {
                m.eq_uint("op/.vr", &v, &eq);
            }
            if let Some(v) = m.must(|| &x / y) {
                m.eq_uint("op/.rv", &v, &eq);
            }
            if let Some(v) = m.must(|| &x / &y) {
                m.eq_uint("op/.rr", &v, &eq);
            }
            if a[0].u() == a[1].u() {
                // both operands are the very same object
                if let Some(v) = m.must(|| &x / &x) {
                    m.eq_uint("op/.rr.alias", &v, &eq);
                }
                if let Some(v) = m.must(|| &x % &x) {
                    m.eq_uint("op%.rr.alias", &v, &er);
                }
            }
            if let Some(v) = m.must(|| {
                let mut z = x;
                z /= y;
                z
            }) {
                m.eq_uint("op/=.v", &v, &eq);
            }
            if let Some(v) = m.must(|| {
                let mut z = x;
                z /= &y;
                z
            }) {
                m.eq_uint("op/=.r", &v, &eq);
            }
            if let Some(v) = m.must(|| x % y) {
                m.eq_uint("op%.vv", &v, &er);
            }
            if let Some(v) = m.must(|| x % &y) {
                m.eq_uint("op%.vr", &v, &er);
            }
            if let Some(v) = m.must(|| &x % y) {
                m.eq_uint("op%.rv", &v, &er);
            }
            if let Some(v) = m.must(|| &x % &y) {
                m.eq_uint("op%.rr", &v, &er);
            }
            if let Some(v) = m.must(|| {
                let mut z = x;
                z %= y;
                z
            }) {
                m.eq_uint("op%=.v", &v, &er);
            }
            if let Some(v) = m.must(|| {
                let mut z = x;
                z %= &y;
                z
            }) {
                m.eq_uint("op%=.r", &v, &er);
            }
            if let Some(v) = m.must(|| x.wrapping_div(y)) {
                m.eq_uint("wrapping_div", &v, &eq);
            }
            if let Some(v) = m.must(|| x.wrapping_rem(y)) {
                m.eq_uint("wrapping_rem", &v, &er);
            }
            if let Some(v) = m.must(|| x.checked_div(y)) {
                match v {
                    Some(v) => {
                        m.eq_uint("checked_div", &v, &eq);
                    }
                    None => m.fail("checked_div.none", "Some(q)", "None"),
                }
            }
            if let Some(v) = m.must(|| x.checked_rem(y)) {
                match v {
                    Some(v) => {
                        m.eq_uint("checked_rem", &v, &er);
                    }
                    None => m.fail("checked_rem.none", "Some(r)", "None"),
                }
            }
            let ceil = if r.is_zero() { q.clone() } else { &q + 1u32 };
            if let Some(v) = m.must(|| x.div_ceil(y)) {
                m.eq_uint("div_ceil", &v, &big::limbs(&ceil, L));
            }
            let mult = &ceil * &bd;
            let fits = big::fits(&mult, B);
            if let Some(v) = m.must(|| x.checked_next_multiple_of(y)) {
                match v {
                    Some(v) => {
                        if m.eq("checked_next_multiple_of.some", &true, &fits) {
                            m.eq_uint("checked_next_multiple_of", &v, &big::limbs(&mult, L));
                        }
                    }
                    None => {
                        m.eq("checked_next_multiple_of.none", &true, &!fits);
                    }
                }
            }
            if fits {
                if let Some(v) = m.must_in("next_multiple_of", || x.next_multiple_of(y)) {
                    m.eq_uint("next_multiple_of", &v, &big::limbs(&mult, L));
                }
            } else {
                // documented: panics when the multiple does not fit
                m.must_panic(|| x.next_multiple_of(y), "multiple does not fit");
            }
        }
        _ => panic!("harness: unknown op {op}"),
    }
}

fn case(m: &mut Mon, bits: usize, n: &[u64], d: &[u64]) {
    m.case("divrem", bits, vec![au(n), au(d)]);
}

fn big_case(m: &mut Mon, bits: usize, n: &BigUint, d: &BigUint) {
    let l = gen::nlimbs(bits);
    if big::fits(n, bits) && big::fits(d, bits) {
        case(m, bits, &big::limbs(n, l), &big::limbs(d, l));
    }
}

fn workload(m: &mut Mon, bits: usize) {
    let l = gen::nlimbs(bits);
    if bits <= 4 {
        for a in 0..(1u64 << bits) {
            for b in 0..(1u64 << bits) {
                if !m.keep() {
                    continue;
                }
                case(m, bits, &gen::small(a, bits), &gen::small(b, bits));
            }
        }
        if !m.is_light() {
            m.mark_exhaustive(format!("all (n, d) pairs including d = 0 at BITS={bits}"));
        }
    }
    if bits == 0 {
        return;
    }
    // boundary grid
    let bd = gen::boundary(bits);
    let mut r = m.stream("c03.directed", bits);
    for a in &bd {
        if !m.keep() {
            continue;
        }
        let mut partners = vec![a.clone(), gen::zero(bits), gen::max(bits), gen::small(1, bits), gen::small(2, bits),
                                gen::small(3, bits), gen::small(10, bits), gen::pow2(bits - 1, bits),
                                gen::pow2(bits / 2, bits), gen::ones(bits / 2, bits)];
        for _ in 0..6 {
            partners.push(r.pick(&bd).clone());
        }
        for b in &partners {
            case(m, bits, a, b);
            case(m, bits, b, a);
        }
    }
    // divisor length x top-limb shift grid x every recipe
    let mut r = m.stream("c03.recipes", bits);
    let dls: Vec<usize> = if l <= 8 {
        (1..=l).collect()
    } else {
        let mut v = vec![1, 2, 3, 4, 5, l / 4, l / 2, l / 2 + 1, l - 2, l - 1, l];
        v.sort_unstable();
        v.dedup();
        v
    };
    let reps = m.iters(if bits <= 512 { 3 } else { 1 });
    for &dl in &dls {
        for topbits in 1..=64usize {
            if 64 * (dl - 1) + topbits > bits {
                continue;
            }
            if !m.keep() {
                continue;
            }
            for recipe in 0..8 {
                for _ in 0..reps {
                    let d = divgen::divisor(&mut r, dl, topbits);
                    let bd_ = big::big(&d);
                    let n = divgen::numerator(&mut r, &bd_, bits, recipe);
                    big_case(m, bits, &n, &bd_);
                }
            }
        }
        if m.time_up() {
            break;
        }
    }
    // exact multiples n = Q*d of one- and two-limb divisors: the remainder candidate inside the 2-by-1 /
    // 3-by-2 step can then equal the divisor exactly, which only the second correction handles
    let mut r = m.stream("c03.exact", bits);
    let small_divs: [u64; 14] = [3, 7, 17, 257, 65537, (1 << 32) + 1, (1 << 32) - 1, 10_000_000_000_000_000_000, 0xffff_ffff_ffff_ffc5,
                                 0x8000_0000_0000_0001, 0xaaaa_aaaa_aaaa_aaab, 0x1_0000_0001, 641, 6_700_417];
    for i in 0..m.iters(if bits <= 512 { 600 } else { 100 }) {
        if !m.keep() {
            continue;
        }
        let d: BigUint = match i % 4 {
            0 => BigUint::from(*r.pick(&small_divs)),
            1 => BigUint::from(gen::alpha_limb(&mut r) | 1),
            2 => BigUint::from(r.u64() | 1),
            _ => big::big(&[gen::alpha_limb(&mut r), gen::alpha_limb(&mut r) | 1]),
        };
        if !big::fits(&d, bits) || d.is_zero() {
            continue;
        }
        let qbits = bits - d.bits() as usize;
        if qbits == 0 {
            continue;
        }
        let q = big::big(&gen::hostile(&mut r, qbits));
        big_case(m, bits, &(&q * &d), &d);
        // and one below / above the exact multiple
        if !q.is_zero() {
            big_case(m, bits, &(&q * &d - 1u8), &d);
        }
        big_case(m, bits, &(&q * &d + 1u8), &d);
    }
    // random: hostile divisor of random shape, numerator by random recipe
    let mut r = m.stream("c03.random", bits);
    let iters = m.iters(if bits <= 256 { 5000 } else if bits <= 1024 { 1500 } else { 300 });
    for i in 0..iters {
        if i % 128 == 0 && m.time_up() {
            break;
        }
        if r.chance(1, 5) {
            let n = gen::hostile(&mut r, bits);
            let d = gen::hostile(&mut r, bits);
            case(m, bits, &n, &d);
            continue;
        }
        let dl = r.range(1, l);
        let maxtop = if dl == l && bits % 64 != 0 { bits % 64 } else { 64 };
        let topbits = if maxtop == 64 && r.chance(1, 4) { 64 } else { r.range(1, maxtop) };
        let d = divgen::divisor(&mut r, dl, topbits);
        let bd_ = big::big(&d);
        let recipe = r.below(8);
        let n = divgen::numerator(&mut r, &bd_, bits, recipe);
        big_case(m, bits, &n, &bd_);
    }
    let _ = BigUint::one();
}

fn main() {
    let mut m = Mon::new("C03", dispatch);
    m.use_hooks = true;
    if !m.replay_if_requested() {
        loop {
            for &bits in WIDTHS {
                if m.width_enabled(bits) {
                    workload(&mut m, bits);
                }
            }
            if !m.another_light_pass() {
                break;
            }
        }
    }
    m.finish();
}
