//! C11 workload (under construction).
fn main() {}
