//! C11 — Montgomery multiplication / squaring: slice level for N = 1..=16 and
//! through `Uint::{mul_redc, square_redc}`.

use num_bigint::BigUint;
use num_traits::{One, Zero};
use ruint::{algorithms, Uint};
use vmon::{au, big, gen, rng::Rng, uint, Arg, Mon};

vmon::widths!(exec_uint; 1, 2, 7, 31, 63, 64, 65, 100, 127, 128, 129, 192, 193, 250, 255, 256, 257, 320, 384, 448, 512, 521, 768, 1024);

/// inv = -m^-1 mod 2^64 by the harness's own Newton iteration (m odd).
fn neg_inv64(m0: u64) -> u64 {
    let mut x: u64 = 1; // correct to 1 bit for odd m0
    for _ in 0..6 {
        x = x.wrapping_mul(2u64.wrapping_sub(m0.wrapping_mul(x)));
    }
    debug_assert_eq!(m0.wrapping_mul(x), 1);
    x.wrapping_neg()
}

/// r is the Montgomery product iff r < m and r * R == a * b (mod m).
fn judge(m: &mut Mon, kind: &str, r: &[u64], a: &BigUint, b: &BigUint, md: &BigUint, n: usize) {
    let br = big::big(r);
    let lhs = (&br << (64 * n)) % md;
    let rhs = (a * b) % md;
    if !(br < *md) {
        m.fail(&format!("{kind}.not-reduced"), &format!("result < m = {}", big::bhex(md)), &big::bhex(&br));
    } else if lhs != rhs {
        m.fail(&format!("{kind}.value"), &format!("r*R = a*b = {} (mod m)", big::bhex(&rhs)), &format!("r={} r*R mod m={}", big::bhex(&br), big::bhex(&lhs)));
    }
    m.obs(|| format!("result={}", big::bhex(&br)));
}

fn slice_go<const N: usize>(m: &mut Mon, a: &[u64], b: &[u64], md: &[u64]) {
    let mut aa = [0u64; N];
    let mut bb = [0u64; N];
    let mut mm = [0u64; N];
    aa.copy_from_slice(a);
    bb.copy_from_slice(b);
    mm.copy_from_slice(md);
    let inv = neg_inv64(mm[0]);
    let (ba, bb_, bm) = (big::big(a), big::big(b), big::big(md));
    if let Some(r) = m.must_in("algorithms::mul_redc", || algorithms::mul_redc(aa, bb, mm, inv)) {
        judge(m, "mul_redc", &r, &ba, &bb_, &bm, N);
    }
    if let Some(r) = m.must_in("algorithms::square_redc", || algorithms::square_redc(aa, mm, inv)) {
        judge(m, "square_redc", &r, &ba, &ba, &bm, N);
    }
    // squaring through mul must agree as well (b := a)
    if let Some(r) = m.must_in("algorithms::mul_redc(a,a)", || algorithms::mul_redc(aa, aa, mm, inv)) {
        judge(m, "mul_redc.square", &r, &ba, &ba, &bm, N);
    }
}

macro_rules! slice_dispatch {
    ($($n:literal),*) => {
        fn slice_level(m: &mut Mon, n: usize, a: &[u64], b: &[u64], md: &[u64]) {
            match n {
                $($n => slice_go::<$n>(m, a, b, md),)*
                _ => panic!("harness: N={n} not instantiated"),
            }
        }
    };
}
slice_dispatch!(1, 2, 3, 4, 5, 6, 7, 8, 9, 10, 11, 12, 13, 14, 15, 16);

fn exec_uint<const B: usize, const L: usize>(m: &mut Mon, _op: &str, a: &[Arg]) {
    let (x, y, md): (Uint<B, L>, Uint<B, L>, Uint<B, L>) = (uint(a[0].u()), uint(a[1].u()), uint(a[2].u()));
    let inv = neg_inv64(a[2].u()[0]);
    let (ba, bb, bm) = (big::big(a[0].u()), big::big(a[1].u()), big::big(a[2].u()));
    if let Some(r) = m.must_in("Uint::mul_redc", || x.mul_redc(y, md, inv)) {
        m.canonical(&r);
        judge(m, "uint.mul_redc", r.as_limbs(), &ba, &bb, &bm, L);
    }
    if let Some(r) = m.must_in("Uint::square_redc", || x.square_redc(md, inv)) {
        m.canonical(&r);
        judge(m, "uint.square_redc", r.as_limbs(), &ba, &ba, &bm, L);
    }
}

fn dispatch_all(m: &mut Mon, bits: usize, op: &str, a: &[Arg]) {
    let nt = |x: &[u64]| big::big(x) > BigUint::one();
    m.nontrivial(nt(a[0].u()) && nt(a[1].u()));
    match op {
        "slice" => slice_level(m, a[2].u().len(), a[0].u(), a[1].u(), a[2].u()),
        "uint" => dispatch(m, bits, op, a),
        _ => panic!("harness: unknown op {op}"),
    }
}

const NCLASS: usize = 18;

/// Odd modulus >= 3 below 2^bits with a chosen top limb class.
fn modulus(r: &mut Rng, bits: usize, class: usize) -> Vec<u64> {
    let l = gen::nlimbs(bits);
    let mask = gen::mask(bits);
    let mut v: Vec<u64> = (0..l).map(|_| gen::alpha_limb(r)).collect();
    let top = match class % NCLASS {
        0 => 0, // short modulus
        1 => 1,
        2 => (1u64 << 62) - 2,
        3 => (1u64 << 62) - 1,
        4 => 1u64 << 62,
        5 => (1u64 << 63) - 2,
        6 => (1u64 << 63) - 1,
        7 => 1u64 << 63,
        8 => u64::MAX,
        9 => u64::MAX - 1,
        10 => (1u64 << 62) + 1,
        11 => (1u64 << 63) + 1,
        12 => r.u64(),
        // around 2^64 / 3, where three maximal carries first exceed one limb
        13 => 0x5555_5555_5555_5554,
        14 => 0x5555_5555_5555_5555,
        15 => 0x5555_5555_5555_5556,
        16 => 0x5555_5555_5555_5555 + (r.u64() >> 40),
        _ => gen::alpha_limb(r),
    };
    v[l - 1] = top & mask;
    if class % NCLASS == 0 && l >= 2 && r.bool() {
        // several zero limbs on top
        let z = r.range(1, l - 1);
        for x in v.iter_mut().rev().take(z) {
            *x = 0;
        }
    }
    if r.chance(1, 6) {
        for x in v.iter_mut().take(l - 1) {
            *x = u64::MAX;
        }
    }
    v[0] |= 1;
    let mut v = gen::canon(v, bits);
    if big::big(&v) < BigUint::from(3u8) {
        v[0] = 3 & if l == 1 { mask } else { u64::MAX };
        if big::big(&v) < BigUint::from(3u8) {
            return vec![]; // width cannot hold an odd modulus >= 3
        }
    }
    v
}

fn operand(r: &mut Rng, md: &[u64], bits: usize) -> Vec<u64> {
    let bm = big::big(md);
    let l = md.len();
    let v = match r.below(10) {
        0 => BigUint::zero(),
        1 => BigUint::one(),
        2 => BigUint::from(2u8),
        3 => &bm - 1u8,
        4 => &bm - 2u8,
        5 => &bm >> 1,
        6 => (&bm >> 1) + 1u8,
        7 => big::big(&gen::uniform(r, bits)) % &bm,
        _ => big::big(&gen::alphabet(r, bits)) % &bm,
    };
    big::limbs(&(v % &bm), l)
}

/// Composite modulus m = x * y (both odd) with operands a = x * s, b = y * t: a * b is a non-zero
/// multiple of m, so the unreduced Montgomery result is exactly m and the final conditional
/// subtraction decides on equality.
fn zero_product(r: &mut Rng, bits: usize) -> Option<(Vec<u64>, Vec<u64>, Vec<u64>)> {
    if bits < 4 {
        return None;
    }
    let l = gen::nlimbs(bits);
    let xb = r.range(2, bits - 2);
    let yb = bits - xb;
    let mut x = big::big(&gen::with_bit_len(r, xb, xb.max(1)));
    let ybl = r.range(2, yb);
    let mut y = big::big(&gen::with_bit_len(r, ybl, yb.max(2)));
    if !x.bit(0) {
        x += 1u8;
    }
    if !y.bit(0) {
        y += 1u8;
    }
    let md = &x * &y;
    if !big::fits(&md, bits) || md < BigUint::from(9u8) {
        return None;
    }
    let s = (big::big(&gen::hostile(r, bits)) % &y).max(BigUint::one());
    let t = (big::big(&gen::hostile(r, bits)) % &x).max(BigUint::one());
    let (a, b) = if r.chance(1, 4) { (x.clone(), x.clone()) } else { (&x * s % &md, &y * t % &md) };
    if a.is_zero() || b.is_zero() {
        return None;
    }
    Some((big::limbs(&a, l), big::limbs(&b, l), big::limbs(&md, l)))
}

fn sub0(a: &BigUint, b: &BigUint) -> BigUint {
    if a >= b { a - b } else { BigUint::from(0u8) }
}

/// Operands chosen so that the value *before* the final conditional subtraction is congruent to a target T at
/// the edges of that step: T = R + d (the carry out of the last row is set and the limbs below it are small),
/// R - 1 - d, m + d, m - 1 - d, 2m - 1 - d, with R = 2^(64 LIMBS). The implementation's unreduced value is T or
/// T - m; with b = T * R * a^-1 mod m either way a * b * R^-1 = T (mod m), and the value oracle decides.
fn targeted(r: &mut Rng, md: &[u64], bits: usize) -> Option<(Vec<u64>, Vec<u64>)> {
    let l = gen::nlimbs(bits);
    let bm = big::big(md);
    let big_r = big::p2(64 * l);
    let a = big::big(&operand(r, md, bits));
    let ainv = a.modinv(&bm)?;
    let d = match r.below(5) {
        0 => BigUint::from(0u8),
        1 => BigUint::from(1u8),
        2 => BigUint::from(r.u64()),
        3 if l >= 2 => big::big(&gen::uniform(r, 64 * (l - 1))),
        _ => big::big(&gen::alphabet(r, 64 * l)) >> r.range(1, 64 * l),
    };
    let two_m = &bm * 2u8;
    let t = match r.below(6) {
        0 | 1 => &big_r + &d,
        2 => sub0(&big_r, &(&d + 1u8)),
        3 => &bm + &d,
        4 => sub0(&bm, &(&d + 1u8)),
        _ => sub0(&two_m, &(&d + 1u8)),
    };
    if t >= two_m {
        return None;
    }
    let b = (&t % &bm) * (&big_r % &bm) % &bm * ainv % &bm;
    Some((big::limbs(&a, l), big::limbs(&b, l)))
}

fn workload(m: &mut Mon) {
    // slice level, N = 1..=16
    for n in 1..=16usize {
        let bits = 64 * n;
        let mut r = m.stream("c11.slice", n);
        let reps = m.iters(if n <= 8 { 160 } else { 60 });
        for class in 0..NCLASS {
            for _ in 0..reps {
                if !m.keep() {
                    continue;
                }
                let md = modulus(&mut r, bits, class);
                if md.is_empty() {
                    continue;
                }
                let a = operand(&mut r, &md, bits);
                let b = operand(&mut r, &md, bits);
                m.case("slice", bits, vec![au(&a), au(&b), au(&md)]);
                if let Some((a, b)) = targeted(&mut r, &md, bits) {
                    m.case("slice", bits, vec![au(&a), au(&b), au(&md)]);
                }
            }
            if m.time_up() {
                return;
            }
        }
        for _ in 0..m.iters(60) {
            if !m.keep() {
                continue;
            }
            if let Some((a, b, md)) = zero_product(&mut r, bits) {
                m.case("slice", bits, vec![au(&a), au(&b), au(&md)]);
                // squares: m = x^2 with a = b = x comes from the (x, x) branch when y == x is not
                // guaranteed, so also feed a perfect-square modulus explicitly
                let x = big::big(&gen::with_bit_len(&mut r, (bits / 2).max(2) - 1, bits / 2 + 1)) | BigUint::one();
                let sq = &x * &x;
                if big::fits(&sq, bits) && sq >= BigUint::from(9u8) {
                    let l = gen::nlimbs(bits);
                    m.case("slice", bits, vec![au(&big::limbs(&x, l)), au(&big::limbs(&x, l)), au(&big::limbs(&sq, l))]);
                }
            }
        }
    }
    if !m.is_light() {
        m.mark_exhaustive("every N in 1..=16 x 18 top-limb classes of the modulus (0, 1, 2^62-2..2^62+1, 2^64/3-1..2^64/3+1, 2^63-2..2^63+1, MAX-1, MAX, random, alphabet); operand contents sampled");
    }
    // Uint level, aligned and non-aligned widths
    for &bits in WIDTHS {
        if !m.width_enabled(bits) {
            continue;
        }
        let mut r = m.stream("c11.uint", bits);
        let reps = m.iters(if bits <= 512 { 100 } else { 40 });
        for class in 0..NCLASS {
            for _ in 0..reps {
                if !m.keep() {
                    continue;
                }
                let md = modulus(&mut r, bits, class);
                if md.is_empty() {
                    continue;
                }
                let a = operand(&mut r, &md, bits);
                let b = operand(&mut r, &md, bits);
                m.case("uint", bits, vec![au(&a), au(&b), au(&md)]);
                if let Some((a, b)) = targeted(&mut r, &md, bits) {
                    m.case("uint", bits, vec![au(&a), au(&b), au(&md)]);
                }
            }
            if m.time_up() {
                return;
            }
        }
        for _ in 0..m.iters(40) {
            if let Some((a, b, md)) = zero_product(&mut r, bits) {
                m.case("uint", bits, vec![au(&a), au(&b), au(&md)]);
            }
        }
        // modulus with the top limb equal to the mask (non-aligned widths)
        let mut md = gen::max(bits);
        md[0] |= 1;
        if big::big(&md) >= BigUint::from(3u8) {
            for _ in 0..m.iters(20) {
                let a = operand(&mut r, &md, bits);
                let b = operand(&mut r, &md, bits);
                m.case("uint", bits, vec![au(&a), au(&b), au(&md)]);
            }
        }
    }
}

fn main() {
    let mut m = Mon::new("C11", dispatch_all);
    m.use_hooks = true;
    if !m.replay_if_requested() {
        loop {
            workload(&mut m);
            if !m.another_light_pass() {
                break;
            }
        }
    }
    m.finish();
}
