//! vmon: runtime-monitoring core shared by the per-property workloads.
pub mod big;
pub mod divgen;
pub mod gcdgen;
pub mod gen;
pub mod mon;
pub mod rng;

pub use mon::{an, au, Arg, Mon, Panic};

/// Generates `WIDTHS` and a `dispatch` function that instantiates the generic
/// `exec::<BITS, LIMBS>` for every listed width.
#[macro_export]
macro_rules! widths {
    ($exec:ident; $($b:literal),* $(,)?) => {
        pub const WIDTHS: &[usize] = &[$($b),*];
        pub fn dispatch(m: &mut $crate::Mon, bits: usize, op: &str, args: &[$crate::Arg]) {
            match bits {
                $($b => $exec::<$b, { ($b + 63) / 64 }>(m, op, args),)*
                _ => panic!("harness: width {bits} not instantiated"),
            }
        }
    };
}

/// Build a `Uint` from canonical limbs produced by the generators.
pub fn uint<const B: usize, const L: usize>(limbs: &[u64]) -> ruint::Uint<B, L> {
    let mut a = [0u64; L];
    assert!(limbs.len() == L, "harness: operand has {} limbs, width {} needs {}", limbs.len(), B, L);
    a.copy_from_slice(limbs);
    assert!(L == 0 || a[L - 1] & !gen::mask(B) == 0, "harness: generator produced non-canonical operand");
    ruint::Uint::from_limbs(a)
}

/// Iterator adaptor that forwards `next` only, so `size_hint` is the trait default `(0, None)` and every
/// other method is the trait's provided one.
pub struct NoHint<I>(pub I);
impl<I: Iterator> Iterator for NoHint<I> {
    type Item = I::Item;
    fn next(&mut self) -> Option<I::Item> {
        self.0.next()
    }
}

/// Iterator adaptor that reports only a lower bound (`(inner lower, None)`).
pub struct LowerOnly<I>(pub I);
impl<I: Iterator> Iterator for LowerOnly<I> {
    type Item = I::Item;
    fn next(&mut self) -> Option<I::Item> {
        self.0.next()
    }
    fn size_hint(&self) -> (usize, Option<usize>) {
        (self.0.size_hint().0, None)
    }
}

/// Feed the items of `$xs` (a `Vec<T>`, `T: Copy`) to the iterator consumer `$meth` (`sum` / `product`)
/// through iterators of many kinds - sources and adaptors that report their length exactly, only a bound,
/// or not at all, by value and by reference - and hand each result to the callback macro `$each!(label, expr)`.
#[macro_export]
macro_rules! iter_kinds {
    ($xs:ident, $T:ty, $meth:ident; $each:ident) => {
        $each!("values.filter", $xs.iter().copied().filter(|_| true).$meth::<$T>());
        $each!("refs.filter", $xs.iter().filter(|_| true).$meth::<$T>());
        $each!("values.nohint", $crate::NoHint($xs.iter().copied()).$meth::<$T>());
        $each!("refs.nohint", $crate::NoHint($xs.iter()).$meth::<$T>());
        $each!("values.loweronly", $crate::LowerOnly($xs.iter().copied()).$meth::<$T>());
        $each!("refs.loweronly", $crate::LowerOnly($xs.iter()).$meth::<$T>());
        $each!("values.vec", $xs.clone().into_iter().$meth::<$T>());
        $each!("refs.rev", $xs.iter().rev().$meth::<$T>());
        $each!("refs.flatten", $xs.chunks(2).flatten().$meth::<$T>());
        $each!("values.flat_map", $xs.chunks(3).flat_map(|c| c.iter().copied()).$meth::<$T>());
        $each!("values.chain", $xs.iter().copied().chain(core::iter::empty()).$meth::<$T>());
        $each!("refs.chain-halves", $xs[..$xs.len() / 2].iter().chain($xs[$xs.len() / 2..].iter()).$meth::<$T>());
        $each!("values.from_fn", {
            let mut i = 0;
            core::iter::from_fn(|| {
                let v = $xs.get(i).copied();
                i += 1;
                v
            })
            .$meth::<$T>()
        });
        $each!("refs.skip_while", $xs.iter().skip_while(|_| false).$meth::<$T>());
        $each!("values.take_while", $xs.iter().copied().take_while(|_| true).$meth::<$T>());
        $each!("values.scan", $xs.iter().scan((), |_, v| Some(*v)).$meth::<$T>());
        $each!("refs.peekable", $xs.iter().peekable().$meth::<$T>());
        $each!("values.fuse", $xs.iter().copied().fuse().$meth::<$T>());
        $each!("refs.by_ref", {
            // (whether the consumer drains the iterator is its own business: the zero-width product does not)
            let mut it = $xs.iter();
            it.by_ref().$meth::<$T>()
        });
    };
}
