//! vmon: runtime-monitoring core shared by the per-property workloads.
pub mod big;
pub mod divgen;
pub mod gcdgen;
pub mod gen;
pub mod mon;
pub mod rng;

pub use mon::{an, au, Arg, Mon, Panic};

/// Generates `WIDTHS` and a `dispatch` function that instantiates the generic
/// `exec::<BITS, LIMBS>` for every listed width.
#[macro_export]
macro_rules! widths {
    ($exec:ident; $($b:literal),* $(,)?) => {
        pub const WIDTHS: &[usize] = &[$($b),*];
        pub fn dispatch(m: &mut $crate::Mon, bits: usize, op: &str, args: &[$crate::Arg]) {
            match bits {
                $($b => $exec::<$b, { ($b + 63) / 64 }>(m, op, args),)*
                _ => panic!("harness: width {bits} not instantiated"),
            }
        }
    };
}

/// Build a `Uint` from canonical limbs produced by the generators.
pub fn uint<const B: usize, const L: usize>(limbs: &[u64]) -> ruint::Uint<B, L> {
    let mut a = [0u64; L];
    assert!(limbs.len() == L, "harness: operand has {} limbs, width {} needs {}", limbs.len(), B, L);
    a.copy_from_slice(limbs);
    assert!(L == 0 || a[L - 1] & !gen::mask(B) == 0, "harness: generator produced non-canonical operand");
    ruint::Uint::from_limbs(a)
}
