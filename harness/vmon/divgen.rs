//! Constructive recipes for division operands aimed at the rare paths of the
//! Knuth / MG10 kernels (add-back, forced digit 2^64-1, second adjustments,
//! reciprocal corrections). Shared by C03 (Uint level) and C14 (slice level).

use crate::{big, gen, rng::Rng};
use num_bigint::BigUint;
use num_traits::{One, Zero};

/// Non-zero divisor with exactly `dl` limbs whose top limb has `topbits`
/// significant bits (1..=64); the other limbs come from the alphabet.
pub fn divisor(r: &mut Rng, dl: usize, topbits: usize) -> Vec<u64> {
    assert!(dl >= 1 && (1..=64).contains(&topbits));
    let mut v: Vec<u64> = match r.below(6) {
        0 => vec![0; dl],
        1 => vec![u64::MAX; dl],
        2 => (0..dl).map(|_| r.u64()).collect(),
        _ => (0..dl).map(|_| gen::alpha_limb(r)).collect(),
    };
    let top = match r.below(5) {
        0 => 1u64 << (topbits - 1),
        1 => {
            if topbits == 64 {
                u64::MAX
            } else {
                (1u64 << topbits) - 1
            }
        }
        2 => (1u64 << (topbits - 1)) | 1,
        _ => {
            let x = r.u64() >> (64 - topbits);
            x | (1u64 << (topbits - 1))
        }
    };
    v[dl - 1] = top;
    // normalised divisors whose leading limbs are (nearly) all ones: the estimate from the top two
    // limbs is as far off as it can be, which is where a skipped or wrong correction shows
    if topbits == 64 && r.chance(1, 3) {
        v[dl - 1] = u64::MAX;
        if dl >= 2 {
            v[dl - 2] = match r.below(4) {
                0 => u64::MAX,
                1 => u64::MAX - 1,
                2 => gen::alpha_limb(r) | (1 << 63),
                _ => gen::alpha_limb(r),
            };
        }
    }
    v
}

/// Numerator below 2^maxbits for divisor `d` (as BigUint), chosen by recipe.
/// `recipe` selects the construction; an unusable recipe falls back to a
/// hostile value.
pub fn numerator(r: &mut Rng, d: &BigUint, maxbits: usize, recipe: usize) -> BigUint {
    let lim = big::p2(maxbits);
    let dbits = d.bits() as usize;
    let fallback = |r: &mut Rng| big::big(&gen::hostile(r, maxbits));
    if d.is_zero() || maxbits == 0 {
        return fallback(r);
    }
    let qbits_max = maxbits.saturating_sub(dbits);
    // a quotient that keeps q*d below 2^maxbits
    let quot = |r: &mut Rng| -> BigUint {
        if qbits_max == 0 {
            return BigUint::zero();
        }
        let qb = match r.below(4) {
            0 => qbits_max,
            1 => r.range(1, qbits_max),
            2 => (qbits_max / 64) * 64,
            _ => qbits_max.saturating_sub(r.below(3)),
        }
        .max(1)
        .min(qbits_max);
        let q = big::big(&gen::hostile(r, qb));
        if q.is_zero() {
            BigUint::one()
        } else {
            q
        }
    };
    let small_delta = |r: &mut Rng, d: &BigUint| -> BigUint {
        match r.below(5) {
            0 => BigUint::one(),
            1 => BigUint::from(2u32),
            2 => BigUint::from(r.u64() >> r.below(64)).max(BigUint::one()),
            3 => {
                // about one limb below the divisor's size
                let b = dbits.saturating_sub(64).max(1);
                big::big(&gen::with_bit_len(r, b, b.max(1))).max(BigUint::one())
            }
            _ => {
                let x = big::big(&gen::hostile(r, dbits.max(1)));
                (x % d).max(BigUint::one())
            }
        }
    };
    let v = match recipe % 8 {
        // n = Q*d - delta : quotient estimate one too large -> add-back
        0 | 1 => {
            let q = quot(r);
            let p = &q * d;
            let dl = small_delta(r, d);
            if p > dl {
                p - dl
            } else {
                p
            }
        }
        // n = d*B^k - delta : leading limbs equal the divisor's -> forced digit
        2 => {
            let kmax = qbits_max / 64;
            let k = if kmax == 0 { 0 } else { r.range(0, kmax) };
            let p = d << (64 * k);
            let dl = small_delta(r, d) << (64 * r.range(0, k));
            if p > dl && p < lim {
                p - dl
            } else if p < lim {
                p
            } else {
                fallback(r)
            }
        }
        // n = Q*d + r with extreme remainders
        3 | 4 => {
            let q = quot(r);
            let rem = match r.below(5) {
                0 => BigUint::zero(),
                1 => BigUint::one() % d,
                2 => d - 1u32,
                3 => {
                    if *d >= BigUint::from(2u32) {
                        d - 2u32
                    } else {
                        BigUint::zero()
                    }
                }
                _ => big::big(&gen::hostile(r, dbits.max(1))) % d,
            };
            q * d + rem
        }
        // numerator's leading limbs equal the divisor's leading limbs, tail hostile
        5 => {
            let kmax = qbits_max / 64;
            let k = if kmax == 0 { 0 } else { r.range(0, kmax) };
            let tail = if k == 0 { BigUint::zero() } else { big::big(&gen::hostile(r, 64 * k)) };
            // replace the low limb(s) of d's image by hostile limbs as well
            let mut top = d.clone();
            if r.bool() && dbits > 64 {
                let low = big::big(&[gen::alpha_limb(r)]);
                top = ((&top >> 64) << 64) + low;
            }
            (top << (64 * k)) + tail
        }
        // n slightly above / below d and its shifts
        6 => {
            let k = if qbits_max == 0 { 0 } else { r.range(0, qbits_max) };
            let p = d << k;
            match r.below(3) {
                0 => p,
                1 => p + 1u32,
                _ => {
                    if p.is_zero() {
                        p
                    } else {
                        p - 1u32
                    }
                }
            }
        }
        _ => fallback(r),
    };
    if v < lim {
        v
    } else {
        fallback(r)
    }
}
