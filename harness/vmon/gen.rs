//! Hostile operand generators. All values are little-endian limb vectors that
//! are canonical for the requested bit width (bits above `bits` are zero).

use crate::rng::Rng;

pub const fn nlimbs(bits: usize) -> usize {
    (bits + 63) / 64
}

pub const fn mask(bits: usize) -> u64 {
    if bits == 0 {
        0
    } else if bits % 64 == 0 {
        u64::MAX
    } else {
        (1u64 << (bits % 64)) - 1
    }
}

/// Force `v` to `nlimbs(bits)` limbs and clear the bits above `bits`.
pub fn canon(mut v: Vec<u64>, bits: usize) -> Vec<u64> {
    let n = nlimbs(bits);
    v.resize(n, 0);
    if n > 0 {
        v[n - 1] &= mask(bits);
    }
    v
}

pub fn is_zero(v: &[u64]) -> bool {
    v.iter().all(|&x| x == 0)
}

pub fn bit_len(v: &[u64]) -> usize {
    for i in (0..v.len()).rev() {
        if v[i] != 0 {
            return 64 * i + 64 - v[i].leading_zeros() as usize;
        }
    }
    0
}

/// One limb from the adversarial alphabet.
pub fn alpha_limb(r: &mut Rng) -> u64 {
    match r.below(20) {
        0 | 1 => 0,
        2 => 1,
        3 => 2,
        4 | 5 => u64::MAX,
        6 => u64::MAX - 1,
        7 => 1 << 63,
        8 => (1 << 63) - 1,
        9 => (1 << 63) + 1,
        10 => 1u64 << r.below(64),
        11 => (1u64 << r.below(64)).wrapping_sub(1),
        12 => !(1u64 << r.below(64)),
        13 => 1u64 << 32,
        14 => (1u64 << 32) - 1,
        15 => 0xffff_ffff_0000_0000,
        16 => r.u64() >> r.below(64),
        _ => r.u64(),
    }
}

pub fn zero(bits: usize) -> Vec<u64> {
    vec![0; nlimbs(bits)]
}

pub fn max(bits: usize) -> Vec<u64> {
    canon(vec![u64::MAX; nlimbs(bits)], bits)
}

pub fn small(x: u64, bits: usize) -> Vec<u64> {
    canon(vec![x], bits)
}

/// 2^k (zero if k >= bits).
pub fn pow2(k: usize, bits: usize) -> Vec<u64> {
    let mut v = zero(bits);
    if k < bits {
        v[k / 64] |= 1 << (k % 64);
    }
    v
}

/// 2^k - 1 truncated to `bits` bits.
pub fn ones(k: usize, bits: usize) -> Vec<u64> {
    let mut v = zero(bits);
    let k = k.min(bits);
    for i in 0..k / 64 {
        v[i] = u64::MAX;
    }
    if k % 64 != 0 {
        v[k / 64] = (1u64 << (k % 64)) - 1;
    }
    v
}

pub fn uniform(r: &mut Rng, bits: usize) -> Vec<u64> {
    canon((0..nlimbs(bits)).map(|_| r.u64()).collect(), bits)
}

/// Uniform value of exactly `len` significant bits (top bit set), `len <= bits`.
pub fn with_bit_len(r: &mut Rng, len: usize, bits: usize) -> Vec<u64> {
    let len = len.min(bits);
    if len == 0 {
        return zero(bits);
    }
    let mut v = canon(uniform(r, len), bits);
    v[(len - 1) / 64] |= 1 << ((len - 1) % 64);
    v
}

/// Value with every limb from the alphabet.
pub fn alphabet(r: &mut Rng, bits: usize) -> Vec<u64> {
    canon((0..nlimbs(bits)).map(|_| alpha_limb(r)).collect(), bits)
}

/// The main hostile generator.
pub fn hostile(r: &mut Rng, bits: usize) -> Vec<u64> {
    let n = nlimbs(bits);
    if bits == 0 {
        return vec![];
    }
    match r.below(24) {
        0 => zero(bits),
        1 => small(1, bits),
        2 => small(r.below(4) as u64 + 2, bits),
        3 => max(bits),
        4 => {
            // MAX - small
            let mut v = max(bits);
            v[0] = v[0].wrapping_sub(r.below(3) as u64 + 1) & if n == 1 { mask(bits) } else { u64::MAX };
            v
        }
        5 => pow2(r.below(bits), bits),
        6 => ones(r.range(1, bits), bits),
        7 => {
            // 2^k + 1 or 2^k + small
            let mut v = pow2(r.below(bits), bits);
            v[0] |= 1;
            v
        }
        8 => {
            // !2^k
            let mut v = max(bits);
            let k = r.below(bits);
            v[k / 64] &= !(1 << (k % 64));
            v
        }
        9 => {
            // 2^k - small
            let k = r.range(1, bits);
            let mut v = ones(k, bits);
            v[0] &= !(r.below(4) as u64);
            v
        }
        10 | 11 => {
            // random bit length, uniform below
            let len = r.range(0, bits);
            with_bit_len(r, len, bits)
        }
        12 => {
            // zero low limbs
            let mut v = alphabet(r, bits);
            let z = r.range(0, n);
            for x in v.iter_mut().take(z) {
                *x = 0;
            }
            v
        }
        13 => {
            // zero high limbs
            let mut v = alphabet(r, bits);
            let z = r.range(0, n);
            for x in v.iter_mut().rev().take(z) {
                *x = 0;
            }
            v
        }
        14 => {
            // zeros in the middle
            let mut v = alphabet(r, bits);
            if n >= 3 {
                let a = r.range(1, n - 1);
                let b = r.range(a, n - 1);
                for x in &mut v[a..b] {
                    *x = 0;
                }
            }
            v
        }
        15 => {
            // run of ones between two bit positions
            let a = r.below(bits);
            let b = r.range(a, bits);
            let hi = ones(b, bits);
            let lo = ones(a, bits);
            hi.iter().zip(lo.iter()).map(|(h, l)| h & !l).collect()
        }
        16 => {
            // single limb value in a wide type
            small(alpha_limb(r), bits)
        }
        17 => {
            // top limb equals MASK, rest alphabet
            let mut v = alphabet(r, bits);
            v[n - 1] = mask(bits);
            v
        }
        18 => {
            // two-limb value
            let mut v = zero(bits);
            v[0] = alpha_limb(r);
            if n > 1 {
                v[1] = alpha_limb(r);
            }
            canon(v, bits)
        }
        19 => alphabet(r, bits),
        20 => {
            // zero low limbs AND zeros in the middle AND possibly zero high limbs
            let mut v = alphabet(r, bits);
            let lo = r.range(0, n.saturating_sub(1));
            for x in v.iter_mut().take(lo) {
                *x = 0;
            }
            if n >= lo + 3 {
                let a = r.range(lo + 1, n - 2);
                let b = r.range(a + 1, n - 1);
                for x in &mut v[a..b] {
                    *x = 0;
                }
                if v[lo] == 0 {
                    v[lo] = alpha_limb(r) | 1;
                }
            }
            if r.chance(1, 3) {
                let hi = r.range(0, n / 2);
                for x in v.iter_mut().rev().take(hi) {
                    *x = 0;
                }
            }
            canon(v, bits)
        }
        _ => uniform(r, bits),
    }
}

/// A fixed, seed-independent list of boundary values for a width.
pub fn boundary(bits: usize) -> Vec<Vec<u64>> {
    let mut out: Vec<Vec<u64>> = Vec::new();
    if bits == 0 {
        return vec![vec![]];
    }
    let mut push = |v: Vec<u64>| {
        let v = canon(v, bits);
        if !out.contains(&v) {
            out.push(v);
        }
    };
    push(zero(bits));
    for x in [1u64, 2, 3, 4, 5, 7, 8, 9, 10, 11, 15, 16, 17, 100, 255, 256, 257, 65535, 65536] {
        push(small(x, bits));
    }
    push(max(bits));
    let mut m1 = max(bits);
    m1[0] &= !1;
    push(m1);
    let ks: Vec<usize> = {
        let mut ks = vec![];
        for base in (0..=bits).step_by(64) {
            for d in [-2i64, -1, 0, 1, 2] {
                let k = base as i64 + d;
                if k >= 0 && (k as usize) <= bits {
                    ks.push(k as usize);
                }
            }
        }
        for k in [bits / 2, bits / 2 + 1, bits / 3, bits - 1, bits, 31, 32, 33, 52, 53, 54] {
            if k <= bits {
                ks.push(k);
            }
        }
        ks.sort_unstable();
        ks.dedup();
        ks
    };
    for &k in &ks {
        push(pow2(k, bits));
        push(ones(k, bits));
        let mut v = pow2(k, bits);
        if !is_zero(&v) {
            v[0] |= 1;
            push(v);
        }
        let mut v = max(bits);
        if k < bits {
            v[k / 64] &= !(1 << (k % 64));
            push(v);
        }
    }
    out
}

/// Hostile limb slice of exactly `len` limbs (no width masking).
pub fn slice(r: &mut Rng, len: usize) -> Vec<u64> {
    let mut v: Vec<u64> = match r.below(8) {
        0 => (0..len).map(|_| r.u64()).collect(),
        1 => vec![u64::MAX; len],
        2 => vec![0; len],
        _ => (0..len).map(|_| alpha_limb(r)).collect(),
    };
    if len > 0 {
        match r.below(8) {
            0 => {
                let z = r.range(0, len);
                for x in v.iter_mut().take(z) {
                    *x = 0;
                }
            }
            1 => {
                let z = r.range(0, len);
                for x in v.iter_mut().rev().take(z) {
                    *x = 0;
                }
            }
            2 if len >= 3 => {
                let a = r.range(1, len - 1);
                let b = r.range(a, len - 1);
                for x in &mut v[a..b] {
                    *x = 0;
                }
            }
            3 if len >= 4 => {
                // zero low limbs and an interior zero limb
                let lo = r.range(1, len - 3);
                for x in v.iter_mut().take(lo) {
                    *x = 0;
                }
                let a = r.range(lo + 1, len - 2);
                v[a] = 0;
                if v[lo] == 0 {
                    v[lo] = alpha_limb(r) | 1;
                }
                if v[len - 1] == 0 {
                    v[len - 1] = alpha_limb(r) | 1;
                }
            }
            _ => {}
        }
    }
    v
}
