//! Monitor core: runs one real call at a time under `catch_unwind`, lets the
//! per-property oracle judge the outcome, checks the canonical-form invariant,
//! attributes coverage-hook hits to the call, and records what was observed.

use crate::big;
use ruint::Uint;
use serde_json::{json, Map, Value};
use std::{
    cell::RefCell,
    collections::{BTreeMap, HashMap, HashSet},
    io::{Seek, Write},
    rc::Rc,
    panic::{self, AssertUnwindSafe},
    time::Instant,
};

/// One operand of a monitored call.
#[derive(Clone, Debug, PartialEq, Eq, Hash)]
pub enum Arg {
    /// Little-endian limbs.
    U(Vec<u64>),
    /// Small unsigned scalar (shift amount, index, degree, radix, length...).
    N(u128),
    /// Signed scalar.
    I(i128),
    /// Byte string.
    B(Vec<u8>),
    /// Text.
    S(String),
}

impl Arg {
    pub fn u(&self) -> &[u64] {
        match self {
            Arg::U(v) => v,
            _ => panic!("harness: expected limb operand, got {self:?}"),
        }
    }
    pub fn n(&self) -> u128 {
        match self {
            Arg::N(v) => *v,
            _ => panic!("harness: expected scalar operand, got {self:?}"),
        }
    }
    pub fn us(&self) -> usize {
        self.n() as usize
    }
    pub fn i(&self) -> i128 {
        match self {
            Arg::I(v) => *v,
            _ => panic!("harness: expected signed operand, got {self:?}"),
        }
    }
    pub fn b(&self) -> &[u8] {
        match self {
            Arg::B(v) => v,
            _ => panic!("harness: expected bytes operand, got {self:?}"),
        }
    }
    pub fn s(&self) -> &str {
        match self {
            Arg::S(v) => v,
            _ => panic!("harness: expected text operand, got {self:?}"),
        }
    }

    pub fn to_json(&self) -> Value {
        match self {
            Arg::U(v) => json!({"U": v.iter().map(|l| format!("0x{l:016x}")).collect::<Vec<_>>()}),
            Arg::N(v) => json!({"N": v.to_string()}),
            Arg::I(v) => json!({"I": v.to_string()}),
            Arg::B(v) => json!({"B": v.iter().map(|b| format!("{b:02x}")).collect::<String>()}),
            Arg::S(v) => json!({"S": v}),
        }
    }

    pub fn from_json(v: &Value) -> Option<Arg> {
        let o = v.as_object()?;
        if let Some(x) = o.get("U") {
            let mut out = vec![];
            for l in x.as_array()? {
                out.push(u64::from_str_radix(l.as_str()?.trim_start_matches("0x"), 16).ok()?);
            }
            return Some(Arg::U(out));
        }
        if let Some(x) = o.get("N") {
            return Some(Arg::N(x.as_str()?.parse().ok()?));
        }
        if let Some(x) = o.get("I") {
            return Some(Arg::I(x.as_str()?.parse().ok()?));
        }
        if let Some(x) = o.get("B") {
            let s = x.as_str()?;
            let mut out = vec![];
            for i in (0..s.len()).step_by(2) {
                out.push(u8::from_str_radix(s.get(i..i + 2)?, 16).ok()?);
            }
            return Some(Arg::B(out));
        }
        if let Some(x) = o.get("S") {
            return Some(Arg::S(x.as_str()?.to_string()));
        }
        None
    }
}

/// Shorthand constructors.
pub fn au(v: &[u64]) -> Arg {
    Arg::U(v.to_vec())
}
pub fn an(v: usize) -> Arg {
    Arg::N(v as u128)
}

#[derive(Clone, Debug)]
pub struct Panic {
    pub msg: String,
    pub file: String,
    pub line: u32,
}

thread_local! {
    static LAST_PANIC: RefCell<Option<Panic>> = const { RefCell::new(None) };
}

pub fn install_panic_hook() {
    panic::set_hook(Box::new(|info| {
        let msg = if let Some(s) = info.payload().downcast_ref::<&str>() {
            (*s).to_string()
        } else if let Some(s) = info.payload().downcast_ref::<String>() {
            s.clone()
        } else {
            "<non-string panic>".to_string()
        };
        let (file, line) = info
            .location()
            .map(|l| (l.file().to_string(), l.line()))
            .unwrap_or_default();
        if msg.starts_with("harness:") {
            eprintln!("HARNESS-ERROR {msg} at {file}:{line}");
        }
        LAST_PANIC.with(|p| *p.borrow_mut() = Some(Panic { msg, file, line }));
    }));
}

#[cfg(recmo_uint_verif)]
pub mod hooks {
    pub use ruint::__verif::*;
    pub const ENABLED: bool = true;
}
#[cfg(not(recmo_uint_verif))]
pub mod hooks {
    pub const ENABLED: bool = false;
    pub const N: usize = 0;
    pub const N_LOOPS: usize = 0;
    pub const NAMES: &[&str] = &[];
    pub const LOOP_NAMES: &[&str] = &[];
    pub const LOOP_CAP_MESSAGE: &str = "recmo_uint_verif: loop cap exceeded in ";
    pub fn snapshot() -> [u64; 0] {
        []
    }
    pub fn ticks_max() -> [u64; 0] {
        []
    }
    pub fn table_rows() -> [u64; 256] {
        [0; 256]
    }
    pub fn reset_ticks() {}
}

#[derive(Default, Clone)]
pub struct OpStat {
    pub n: u64,
    pub nontrivial: u64,
    pub panics_expected: u64,
    pub violations: u64,
}

pub struct ViolationRec {
    pub signature: String,
    pub count: u64,
    pub first: Vec<Value>,
}

pub type Dispatch = fn(&mut Mon, usize, &str, &[Arg]);

pub struct Config {
    pub lane: String,
    pub seed: u64,
    pub shard: u64,
    pub nshards: u64,
    pub stride: u64,
    pub scale: f64,
    /// Light lanes (Miri, memcheck): probability with which a directed item is
    /// generated at all; 0 = normal lane. Light lanes do no hash slicing.
    pub light: f64,
    pub out: Option<String>,
    pub replay: Option<String>,
    pub journal: Option<String>,
    pub widths: Option<Vec<usize>>,
    pub ops: Option<Vec<String>>,
    pub max_seconds: f64,
    pub extra: BTreeMap<String, String>,
}

impl Config {
    pub fn from_args() -> Config {
        let mut c = Config {
            lane: "native".into(),
            seed: 0,
            shard: 0,
            nshards: 1,
            stride: 1,
            scale: 1.0,
            light: 0.0,
            out: None,
            replay: None,
            journal: None,
            widths: None,
            ops: None,
            max_seconds: 1e9,
            extra: BTreeMap::new(),
        };
        let args: Vec<String> = std::env::args().skip(1).collect();
        let mut i = 0;
        while i < args.len() {
            let k = args[i].as_str();
            let v = args.get(i + 1).cloned().unwrap_or_default();
            match k {
                "--lane" => c.lane = v,
                "--seed" => c.seed = v.parse().expect("harness: --seed"),
                "--shard" => {
                    let (a, b) = v.split_once('/').expect("harness: --shard i/n");
                    c.shard = a.parse().expect("harness: shard");
                    c.nshards = b.parse().expect("harness: nshards");
                }
                "--stride" => c.stride = v.parse().expect("harness: --stride"),
                "--scale" => c.scale = v.parse().expect("harness: --scale"),
                "--light" => c.light = v.parse().expect("harness: --light"),
                "--out" => c.out = Some(v),
                "--replay" => c.replay = Some(v),
                "--journal" => c.journal = Some(v),
                "--max-seconds" => c.max_seconds = v.parse().expect("harness: --max-seconds"),
                "--widths" => {
                    c.widths = Some(v.split(',').map(|x| x.parse().expect("harness: width")).collect())
                }
                "--ops" => c.ops = Some(v.split(',').map(|s| s.to_string()).collect()),
                _ if k.starts_with("--") => {
                    c.extra.insert(k[2..].to_string(), v);
                }
                _ => panic!("harness: unknown argument {k}"),
            }
            i += 2;
        }
        c
    }
}

pub struct Mon {
    pub prop: &'static str,
    pub cfg: Config,
    pub rng: crate::rng::Rng,
    keep_rng: crate::rng::Rng,
    dispatch: Dispatch,
    start: Instant,
    // current case
    cur_op: Rc<str>,
    cur_bits: usize,
    cur_args: Rc<Vec<Arg>>,
    cur_nontrivial: bool,
    cur_failed: bool,
    cur_obs: Option<String>,
    cur_sampled: bool,
    cur_label: &'static str,
    // statistics
    pub generated: u64,
    pub evaluations: u64,
    pub nontrivial_evals: u64,
    distinct: HashSet<u64>,
    distinct_capped: bool,
    bulk_distinct: u64,
    by_op: BTreeMap<String, OpStat>,
    pending: OpStat,
    by_width: BTreeMap<usize, u64>,
    pub panics_expected: u64,
    samples: Vec<Value>,
    sampled_ops: HashSet<String>,
    violations: BTreeMap<String, ViolationRec>,
    pub violation_count: u64,
    exhaustive: Vec<String>,
    notes: BTreeMap<String, Value>,
    // hooks
    pub use_hooks: bool,
    hook_cases: Vec<u64>,
    hook_start: Vec<u64>,
    path_sigs: HashSet<u128>,
    journal: Option<std::fs::File>,
    time_up_flag: bool,
    /// Light lanes: end (seconds since start) of the time slice of the width being worked on, so that the
    /// budget is spread over all enabled widths instead of being spent on the first ones.
    width_slice_end: f64,
    widths_seen: usize,
    light_passes: u64,
    pass_base: f64,
    drought: u32,
    light_counts: HashMap<(String, usize), u64>,
    width_time_ups: u64,
    /// Values produced by the current case (width, limbs); used by history
    /// workloads that feed results back into later cases.
    pub produced: Vec<(usize, Vec<u64>)>,
}

const DISTINCT_CAP: usize = 16_000_000;

fn fnv(h: &mut u64, bytes: &[u8]) {
    for b in bytes {
        *h ^= u64::from(*b);
        *h = h.wrapping_mul(0x0000_0100_0000_01b3);
    }
}

fn mix(mut z: u64) -> u64 {
    z = (z ^ (z >> 30)).wrapping_mul(0xbf58_476d_1ce4_e5b9);
    z = (z ^ (z >> 27)).wrapping_mul(0x94d0_49bb_1331_11eb);
    z ^ (z >> 31)
}

pub fn case_hash(op: &str, bits: usize, args: &[Arg]) -> u64 {
    let mut h = 0xcbf2_9ce4_8422_2325u64;
    fnv(&mut h, op.as_bytes());
    fnv(&mut h, &[0xff]);
    fnv(&mut h, &(bits as u64).to_le_bytes());
    for a in args {
        match a {
            Arg::U(v) => {
                fnv(&mut h, &[1]);
                fnv(&mut h, &(v.len() as u64).to_le_bytes());
                for l in v {
                    fnv(&mut h, &l.to_le_bytes());
                }
            }
            Arg::N(v) => {
                fnv(&mut h, &[2]);
                fnv(&mut h, &v.to_le_bytes());
            }
            Arg::I(v) => {
                fnv(&mut h, &[3]);
                fnv(&mut h, &v.to_le_bytes());
            }
            Arg::B(v) => {
                fnv(&mut h, &[4]);
                fnv(&mut h, &(v.len() as u64).to_le_bytes());
                fnv(&mut h, v);
            }
            Arg::S(v) => {
                fnv(&mut h, &[5]);
                fnv(&mut h, &(v.len() as u64).to_le_bytes());
                fnv(&mut h, v.as_bytes());
            }
        }
    }
    mix(h)
}

impl Mon {
    pub fn new(prop: &'static str, dispatch: Dispatch) -> Mon {
        install_panic_hook();
        let cfg = Config::from_args();
        if cfg.extra.contains_key("noop") {
            // build warm-up: do nothing at all
            std::process::exit(0);
        }
        let rng = crate::rng::Rng::new(cfg.seed, 0);
        let keep_rng = crate::rng::Rng::new(cfg.seed ^ 0x6b65_6570, cfg.shard + 1);
        let journal = cfg.journal.as_ref().map(|p| {
            std::fs::OpenOptions::new()
                .create(true)
                .write(true)
                .truncate(true)
                .open(p)
                .expect("harness: journal")
        });
        Mon {
            prop,
            cfg,
            rng,
            keep_rng,
            dispatch,
            start: Instant::now(),
            cur_op: Rc::from(""),
            cur_bits: 0,
            cur_args: Rc::new(vec![]),
            cur_nontrivial: true,
            cur_failed: false,
            cur_obs: None,
            cur_sampled: false,
            cur_label: "",
            generated: 0,
            evaluations: 0,
            nontrivial_evals: 0,
            distinct: HashSet::new(),
            distinct_capped: false,
            bulk_distinct: 0,
            by_op: BTreeMap::new(),
            pending: OpStat::default(),
            by_width: BTreeMap::new(),
            panics_expected: 0,
            samples: vec![],
            sampled_ops: HashSet::new(),
            violations: BTreeMap::new(),
            violation_count: 0,
            exhaustive: vec![],
            notes: BTreeMap::new(),
            use_hooks: false,
            hook_cases: vec![0; hooks::N],
            hook_start: vec![0; hooks::N],
            path_sigs: HashSet::new(),
            journal,
            time_up_flag: false,
            width_slice_end: f64::INFINITY,
            widths_seen: 0,
            light_passes: 0,
            pass_base: 0.0,
            drought: 0,
            light_counts: HashMap::new(),
            width_time_ups: 0,
            produced: Vec::new(),
        }
    }

    /// Fresh, reproducible PRNG stream for a named generator.
    pub fn stream(&self, tag: &str, bits: usize) -> crate::rng::Rng {
        let mut h = 0xcbf2_9ce4_8422_2325u64;
        fnv(&mut h, tag.as_bytes());
        fnv(&mut h, &(bits as u64).to_le_bytes());
        if self.cfg.light > 0.0 {
            fnv(&mut h, &self.cfg.shard.to_le_bytes());
            fnv(&mut h, &self.light_passes.to_le_bytes());
        }
        crate::rng::Rng::new(self.cfg.seed, h)
    }

    /// Thinning of directed corpora in light lanes (Miri, memcheck), where even
    /// generating a case is expensive: true always in normal lanes, true with
    /// probability `--light` otherwise (independent stream per shard).
    pub fn keep(&mut self) -> bool {
        if self.cfg.light <= 0.0 {
            return true;
        }
        self.light_deadline();
        // past this width's time slice the rest of its directed corpus is skipped
        if self.start.elapsed().as_secs_f64() > self.width_slice_end {
            return false;
        }
        // thinning with a bounded drought: after 4 rejections in a row the next candidate is taken, so every
        // directed list of some length contributes (the per-operation decay in `case` bounds the total)
        let pick = (self.keep_rng.u64() >> 11) as f64 / (1u64 << 53) as f64 <= self.cfg.light || u64::from(self.drought) >= 4 + 6 * self.light_passes;
        self.drought = if pick { 0 } else { self.drought + 1 };
        pick
    }

    pub fn is_light(&self) -> bool {
        self.cfg.light > 0.0
    }

    /// Light lanes: true for the one shard of the lane that owns the `i`-th case of an unthinned "shape" corpus
    /// (cases whose point is the memory shape, which the interpreter lanes must all see once), during the first
    /// pass over the workload only. Always false in the native lanes, which submit such cases through `case`.
    pub fn light_owns(&mut self, i: u64, op: &str) -> bool {
        // when the shards of the lane own disjoint widths, the caller's width already belongs to this shard alone
        let by_width = self.cfg.widths.as_ref().is_some_and(|w| w.len() >= 2 * (self.cfg.nshards as usize).max(1));
        self.cfg.light > 0.0
            && self.light_passes == 0
            && (by_width || i % self.cfg.nshards.max(1) == self.cfg.shard)
            && self.op_enabled(op)
            && !self.time_up()
    }

    /// Number of random iterations for a base budget under the lane's scale.
    pub fn iters(&self, base: usize) -> usize {
        ((base as f64 * self.cfg.scale).ceil() as usize).max(1)
    }

    pub fn is_miri(&self) -> bool {
        self.cfg.lane.starts_with("miri")
    }

    pub fn time_up(&mut self) -> bool {
        let el = self.start.elapsed().as_secs_f64();
        if self.cfg.light > 0.0 && el > self.width_slice_end {
            // this width's slice is used up (not sticky: the next width gets its own slice)
            self.width_time_ups += 1;
            return true;
        }
        if !self.time_up_flag && el > self.cfg.max_seconds {
            self.time_up_flag = true;
        }
        self.time_up_flag
    }

    /// Called by the workloads once per width, in order. In the light lanes (which always name their widths)
    /// each enabled width gets an equal slice of the lane's time budget.
    fn width_on(&self, bits: usize) -> bool {
        match self.cfg.widths.as_ref() {
            None => true,
            Some(w) => match w.iter().position(|x| *x == bits) {
                None => false,
                // light lanes: the shards of a lane own disjoint subsets of the widths (when there are enough)
                Some(i) => {
                    let n = (self.cfg.nshards as usize).max(1);
                    self.cfg.light <= 0.0 || w.len() < 2 * n || i % n == self.cfg.shard as usize
                }
            },
        }
    }

    pub fn width_enabled(&mut self, bits: usize) -> bool {
        let on = self.width_on(bits);
        if on && self.cfg.light > 0.0 {
            if let Some(w) = self.cfg.widths.as_ref() {
                self.widths_seen += 1;
                let n = self.light_share(w.len()).max(1);
                self.begin_width_slice(self.widths_seen.min(n) - 1, n);
            }
        }
        on
    }

    /// Light lanes: the k-th of n widths of this pass starts now; its slice ends at the k+1-th n-th of what was
    /// left of the time budget when the pass began.
    pub fn begin_width_slice(&mut self, k: usize, n: usize) {
        if self.cfg.light > 0.0 {
            let left = (self.cfg.max_seconds - self.pass_base).max(0.0);
            self.width_slice_end = self.pass_base + left * ((k + 1).min(n.max(1)) as f64) / (n.max(1) as f64);
        }
    }

    /// Light lanes: when a pass over the workload ended well inside the time budget (thinning and decay
    /// make passes short), run another one: the random streams, the thinning picks and the depth reached in the
    /// directed lists all differ from pass to pass. Always false in the native lanes.
    pub fn another_light_pass(&mut self) -> bool {
        if self.cfg.light <= 0.0 {
            return false;
        }
        let el = self.start.elapsed().as_secs_f64();
        if el > 0.7 * self.cfg.max_seconds || self.light_passes >= 11 {
            return false;
        }
        self.light_passes += 1;
        self.note_add("light_lane_extra_passes", 1);
        self.pass_base = el;
        self.widths_seen = 0;
        self.width_slice_end = f64::INFINITY;
        self.light_counts.clear();
        self.drought = 0;
        true
    }

    /// Light lanes split the named widths between the shards of the lane (width i belongs to shard
    /// i mod nshards), so every width gets nshards times the time; returns how many widths this shard owns.
    fn light_share(&self, nwidths: usize) -> usize {
        let (s, n) = (self.cfg.shard as usize, (self.cfg.nshards as usize).max(1));
        if nwidths < 2 * n {
            return nwidths;
        }
        (0..nwidths).filter(|i| i % n == s).count()
    }

    pub fn op_enabled(&self, op: &str) -> bool {
        self.cfg.ops.as_ref().map_or(true, |w| w.iter().any(|o| o == op))
    }

    /// Account for cases executed by a bulk sweep that bypasses `case()` (every
    /// swept case is distinct by construction; `nontrivial` of them count).
    pub fn bump(&mut self, evaluations: u64, nontrivial: u64) {
        self.evaluations += evaluations;
        self.generated += evaluations;
        self.nontrivial_evals += nontrivial;
        self.bulk_distinct += nontrivial;
    }

    pub fn mark_exhaustive(&mut self, what: impl Into<String>) {
        let w = what.into();
        if !self.exhaustive.contains(&w) {
            self.exhaustive.push(w);
        }
    }

    pub fn note(&mut self, key: &str, v: Value) {
        self.notes.insert(key.to_string(), v);
    }

    pub fn note_add(&mut self, key: &str, n: u64) {
        let e = self.notes.entry(key.to_string()).or_insert(json!(0u64));
        *e = json!(e.as_u64().unwrap_or(0) + n);
    }

    pub fn note_max(&mut self, key: &str, n: u64) {
        let e = self.notes.entry(key.to_string()).or_insert(json!(0u64));
        if n > e.as_u64().unwrap_or(0) {
            *e = json!(n);
        }
    }

    /// Submit one case. It is executed iff it belongs to this shard's slice
    /// (decided by the case hash, so equal cases always land in one shard).
    pub fn case(&mut self, op: &str, bits: usize, args: Vec<Arg>) {
        self.generated += 1;
        if self.cfg.light > 0.0 && self.generated % 16 == 0 {
            self.light_deadline();
        }
        if !self.width_on(bits) || !self.op_enabled(op) {
            return;
        }
        if self.cfg.light > 0.0 && self.cfg.ops.is_none() {
            // light lanes buy breadth (unless the lane is restricted to named operations): after the first case of an operation at a width, further ones are
            // executed with quickly falling probability, so that one long directed list cannot use up the budget
            let c = self.light_counts.entry((op.to_string(), bits)).or_insert(0);
            *c += 1;
            const CAP: f64 = 1.0;
            if (*c as f64) > CAP {
                let p = (CAP / *c as f64).powi(2);
                if ((self.keep_rng.u64() >> 11) as f64 / (1u64 << 53) as f64) > p {
                    return;
                }
            }
        }
        let h = case_hash(op, bits, &args);
        let modulus = self.cfg.nshards * self.cfg.stride;
        if modulus > 1 && self.cfg.light <= 0.0 {
            let want = (self.cfg.shard + self.cfg.nshards * (self.cfg.seed % self.cfg.stride)) % modulus;
            if (h >> 7) % modulus != want {
                return;
            }
        }
        self.run_case(op, bits, args, h);
    }

    /// Execute a case unconditionally (used for replay and for history-style
    /// workloads whose later cases depend on earlier results).
    pub fn case_always(&mut self, op: &str, bits: usize, args: Vec<Arg>) {
        self.generated += 1;
        if self.cfg.light > 0.0 && self.generated % 16 == 0 {
            self.light_deadline();
        }
        let h = case_hash(op, bits, &args);
        self.run_case(op, bits, args, h);
    }

    fn run_case(&mut self, op: &str, bits: usize, args: Vec<Arg>, h: u64) {
        if let Some(j) = self.journal.as_mut() {
            let rec = json!({"op": op, "bits": bits, "args": args.iter().map(Arg::to_json).collect::<Vec<_>>()});
            let _ = j.set_len(0);
            let _ = j.rewind();
            let _ = j.write_all(rec.to_string().as_bytes());
            let _ = j.flush();
        }
        if &*self.cur_op != op {
            self.flush_stat();
            self.cur_op = Rc::from(op);
        }
        self.cur_bits = bits;
        self.cur_args = Rc::new(args);
        self.cur_nontrivial = true;
        self.cur_failed = false;
        self.cur_obs = None;
        self.cur_label = "";
        self.evaluations += 1;
        self.cur_sampled = !self.sampled_ops.contains(op)
            || (self.evaluations.is_power_of_two() && self.evaluations >= 1024);
        // per-call loop counters always start at zero, or the cap would count
        // iterations of the whole process
        hooks::reset_ticks();
        if self.use_hooks {
            let s = hooks::snapshot();
            self.hook_start.copy_from_slice(&s);
        }
        let args = Rc::clone(&self.cur_args);
        let d = self.dispatch;
        let opname = Rc::clone(&self.cur_op);
        let r = panic::catch_unwind(AssertUnwindSafe(|| d(self, bits, &opname, &args)));
        if r.is_err() {
            // A panic that escaped `call` is either a harness bug or a panic in
            // oracle code; both must be loud, not silent.
            let p = LAST_PANIC.with(|p| p.borrow_mut().take());
            let (msg, file, line) = p.map(|p| (p.msg, p.file, p.line)).unwrap_or_default();
            if msg.starts_with("harness:") || file.starts_with("vmon/") || file.starts_with("bins/") {
                eprintln!("HARNESS-ERROR escaped panic in {} bits={}: {msg} at {file}:{line}", self.cur_op, bits);
                self.note_add("harness_errors", 1);
            } else {
                self.fail(&format!("panic|{}", short_file(&file)), "no panic", &format!("panic: {msg} at {file}:{line}"));
            }
        }
        if self.use_hooks {
            let s = hooks::snapshot();
            let mut sig: u128 = 0;
            for i in 0..hooks::N {
                if s[i] != self.hook_start[i] {
                    self.hook_cases[i] += 1;
                    sig |= 1u128 << (i % 128);
                }
            }
            if sig != 0 && self.path_sigs.len() < 1_000_000 {
                self.path_sigs.insert(sig);
            }
        }
        self.pending.n += 1;
        if self.cur_nontrivial {
            self.pending.nontrivial += 1;
            self.nontrivial_evals += 1;
            if self.distinct.len() < DISTINCT_CAP {
                self.distinct.insert(h);
            } else {
                self.distinct_capped = true;
            }
        }
        *self.by_width.entry(bits).or_default() += 1;
        if self.cur_sampled && self.cur_nontrivial && !self.cur_failed && self.samples.len() < 160 {
            self.sampled_ops.insert(self.cur_op.to_string());
            let mut s = self.case_json();
            s.insert("verdict".into(), json!("held"));
            if let Some(o) = self.cur_obs.take() {
                s.insert("observed".into(), json!(o));
            }
            self.samples.push(Value::Object(s));
        }
    }

    fn flush_stat(&mut self) {
        if self.pending.n > 0 || self.pending.violations > 0 || self.pending.panics_expected > 0 {
            let p = std::mem::take(&mut self.pending);
            let st = self.by_op.entry(self.cur_op.to_string()).or_default();
            st.n += p.n;
            st.nontrivial += p.nontrivial;
            st.panics_expected += p.panics_expected;
            st.violations += p.violations;
        }
    }

    fn case_json(&self) -> Map<String, Value> {
        let mut m = Map::new();
        m.insert("property".into(), json!(self.prop));
        m.insert("op".into(), json!(&*self.cur_op));
        m.insert("bits".into(), json!(self.cur_bits));
        m.insert("args".into(), Value::Array(self.cur_args.iter().map(Arg::to_json).collect()));
        m
    }

    /// Run the real code under `catch_unwind`.
    pub fn call<T>(&mut self, f: impl FnOnce() -> T) -> Result<T, Panic> {
        LAST_PANIC.with(|p| *p.borrow_mut() = None);
        match panic::catch_unwind(AssertUnwindSafe(f)) {
            Ok(v) => Ok(v),
            Err(_) => {
                let p = LAST_PANIC.with(|p| p.borrow_mut().take()).unwrap_or(Panic {
                    msg: "<unknown>".into(),
                    file: String::new(),
                    line: 0,
                });
                if p.msg.starts_with("harness:") {
                    panic!("{}", p.msg);
                }
                Err(p)
            }
        }
    }

    /// Name the entry point about to be called; it becomes part of the
    /// signature of an unexpected panic (`panic|<label>|<file>`).
    pub fn label(&mut self, l: &'static str) {
        self.cur_label = l;
    }

    /// `label` + `must`.
    pub fn must_in<T>(&mut self, l: &'static str, f: impl FnOnce() -> T) -> Option<T> {
        self.cur_label = l;
        let r = self.must(f);
        self.cur_label = "";
        r
    }

    /// The real call must not panic; returns the value if it did not.
    pub fn must<T>(&mut self, f: impl FnOnce() -> T) -> Option<T> {
        match self.call(f) {
            Ok(v) => Some(v),
            Err(p) => {
                self.unexpected_panic(&p);
                None
            }
        }
    }

    pub fn unexpected_panic(&mut self, p: &Panic) {
        let kind = if p.msg.starts_with(hooks::LOOP_CAP_MESSAGE) {
            format!("nontermination|{}", &p.msg[hooks::LOOP_CAP_MESSAGE.len()..])
        } else if self.cur_label.is_empty() {
            format!("panic|{}", short_file(&p.file))
        } else {
            format!("panic|{}|{}", self.cur_label, short_file(&p.file))
        };
        self.fail(&kind, "no panic", &format!("panic: {} at {}:{}", p.msg, p.file, p.line));
    }

    /// The real call must panic (documented panic). Returns true if it did.
    pub fn must_panic<T: std::fmt::Debug>(&mut self, f: impl FnOnce() -> T, why: &str) -> bool {
        match self.call(f) {
            Ok(v) => {
                self.fail("missing-panic", &format!("panic ({why})"), &format!("{v:?}"));
                false
            }
            Err(p) => {
                if p.msg.starts_with(hooks::LOOP_CAP_MESSAGE) {
                    self.unexpected_panic(&p);
                    return false;
                }
                self.panics_expected += 1;
                self.pending.panics_expected += 1;
                true
            }
        }
    }

    pub fn nontrivial(&mut self, yes: bool) {
        self.cur_nontrivial = yes;
    }

    pub fn sampling(&self) -> bool {
        self.cur_sampled
    }

    pub fn obs(&mut self, f: impl FnOnce() -> String) {
        if self.cur_sampled {
            self.cur_obs = Some(f());
        }
    }

    /// Record a violation for the current case.
    pub fn fail(&mut self, kind: &str, expected: &str, observed: &str) {
        self.violation_count += 1;
        self.cur_failed = true;
        self.pending.violations += 1;
        let sig = format!("{}|{}|{}", self.prop, self.cur_op, kind);
        let mut rec = self.case_json();
        let e = self.violations.entry(sig.clone()).or_insert_with(|| ViolationRec {
            signature: sig.clone(),
            count: 0,
            first: vec![],
        });
        e.count += 1;
        if e.first.len() < 3 {
            rec.insert("signature".into(), json!(sig));
            rec.insert("kind".into(), json!(kind));
            rec.insert("expected".into(), json!(trunc(expected)));
            rec.insert("observed".into(), json!(trunc(observed)));
            rec.insert("lane".into(), json!(self.cfg.lane));
            rec.insert("seed".into(), json!(self.cfg.seed));
            e.first.push(Value::Object(rec));
        }
    }

    pub fn check(&mut self, ok: bool, kind: &str, expected: impl FnOnce() -> String, observed: impl FnOnce() -> String) -> bool {
        if !ok {
            let (e, o) = (expected(), observed());
            self.fail(kind, &e, &o);
        }
        ok
    }

    pub fn eq<T: PartialEq + std::fmt::Debug>(&mut self, kind: &str, observed: &T, expected: &T) -> bool {
        if observed != expected {
            self.fail(kind, &format!("{expected:?}"), &format!("{observed:?}"));
            false
        } else {
            true
        }
    }

    /// Compare a returned `Uint` with expected limbs and check canonical form.
    pub fn eq_uint<const B: usize, const L: usize>(&mut self, kind: &str, observed: &Uint<B, L>, expected: &[u64]) -> bool {
        let ok = self.canonical(observed);
        if observed.as_limbs()[..] != expected[..] {
            self.fail(kind, &big::hex(expected), &big::hex(observed.as_limbs()));
            return false;
        }
        ok
    }

    /// Cross-cutting canonical-form invariant (C04) on any produced value.
    pub fn canonical<const B: usize, const L: usize>(&mut self, v: &Uint<B, L>) -> bool {
        let limbs = v.as_limbs();
        let ok = if L == 0 {
            true
        } else {
            limbs[L - 1] & !crate::gen::mask(B) == 0
        };
        if !ok {
            self.fail("non-canonical", "bits above BITS are zero", &big::hex(limbs));
        }
        ok
    }

    /// Canonical-form check on a produced value; canonical values are handed
    /// back to the workload through `produced`.
    pub fn produce<const B: usize, const L: usize>(&mut self, v: &Uint<B, L>) {
        if self.canonical(v) && self.produced.len() < 64 {
            self.produced.push((B, v.as_limbs().to_vec()));
        }
    }

    pub fn finish(mut self) {
        self.write_report();
    }

    /// Light lanes (Miri, memcheck) must end close to their time budget even
    /// when generation itself is slow: past 1.3x the budget the report is
    /// written and the process exits.
    fn light_deadline(&mut self) {
        if self.cfg.light > 0.0 && self.start.elapsed().as_secs_f64() > self.cfg.max_seconds * 1.3 {
            self.time_up_flag = true;
            self.write_report();
            std::process::exit(0);
        }
    }

    fn write_report(&mut self) {
        self.flush_stat();
        let wall = self.start.elapsed().as_secs_f64();
        let mut by_op = Map::new();
        for (k, v) in &self.by_op {
            by_op.insert(
                k.clone(),
                json!({"n": v.n, "nontrivial": v.nontrivial, "panics_expected": v.panics_expected, "violations": v.violations}),
            );
        }
        let mut by_width = Map::new();
        for (k, v) in &self.by_width {
            by_width.insert(k.to_string(), json!(v));
        }
        let mut hook_hits = Map::new();
        let mut hook_cases = Map::new();
        let mut ticks = Map::new();
        let mut rows = 0;
        if self.use_hooks && hooks::ENABLED {
            let s = hooks::snapshot();
            for i in 0..hooks::N {
                hook_hits.insert(hooks::NAMES[i].to_string(), json!(s[i]));
                hook_cases.insert(hooks::NAMES[i].to_string(), json!(self.hook_cases[i]));
            }
            let t = hooks::ticks_max();
            for i in 0..hooks::N_LOOPS {
                ticks.insert(hooks::LOOP_NAMES[i].to_string(), json!(t[i]));
            }
            rows = hooks::table_rows().iter().filter(|&&c| c > 0).count();
        }
        let viol: Vec<Value> = self
            .violations
            .values()
            .map(|v| json!({"signature": v.signature, "count": v.count, "first": v.first}))
            .collect();
        self.samples.truncate(120);
        let rep = json!({
            "property": self.prop,
            "lane": self.cfg.lane,
            "seed": self.cfg.seed,
            "shard": self.cfg.shard,
            "nshards": self.cfg.nshards,
            "stride": self.cfg.stride,
            "scale": self.cfg.scale,
            "light": self.cfg.light,
            "generated": self.generated,
            "evaluations": self.evaluations,
            "nontrivial_evaluations": self.nontrivial_evals,
            "distinct_nontrivial": self.distinct.len() as u64 + self.bulk_distinct,
            "distinct_capped": self.distinct_capped,
            "panics_expected": self.panics_expected,
            "violation_count": self.violation_count,
            "violations": viol,
            "by_op": by_op,
            "by_width": by_width,
            "hook_hits": hook_hits,
            "hook_cases": hook_cases,
            "hook_path_signatures": self.path_sigs.len(),
            "loop_ticks_max": ticks,
            "reciprocal_table_rows_hit": rows,
            "exhaustive": self.exhaustive,
            "notes": self.notes,
            "samples": self.samples,
            "truncated_by_time": self.time_up_flag || self.width_time_ups > 0,
            "wall_s": wall,
        });
        let text = rep.to_string();
        match &self.cfg.out {
            Some(p) => std::fs::write(p, text).expect("harness: write report"),
            None => println!("REPORT {text}"),
        }
    }

    /// Replay mode: run exactly the recorded case and report.
    pub fn replay_if_requested(&mut self) -> bool {
        let Some(path) = self.cfg.replay.clone() else {
            return false;
        };
        let text = std::fs::read_to_string(&path).expect("harness: read replay");
        let v: Value = serde_json::from_str(&text).expect("harness: parse replay");
        let op = v["op"].as_str().expect("harness: replay op").to_string();
        let bits = v["bits"].as_u64().expect("harness: replay bits") as usize;
        let args: Vec<Arg> = v["args"]
            .as_array()
            .expect("harness: replay args")
            .iter()
            .map(|a| Arg::from_json(a).expect("harness: replay arg"))
            .collect();
        self.case_always(&op, bits, args);
        true
    }
}

fn trunc(s: &str) -> String {
    if s.len() > 600 {
        let mut e = 600;
        while !s.is_char_boundary(e) {
            e -= 1;
        }
        format!("{}…(+{} bytes)", &s[..e], s.len() - e)
    } else {
        s.to_string()
    }
}

/// Path relative to the repository (stable across checkouts).
pub fn short_file(f: &str) -> String {
    if let Some(i) = f.find("/src/") {
        // keep `src/...`, and `ruint-macro/src/...` when present
        let head = &f[..i];
        if head.ends_with("ruint-macro") {
            return format!("ruint-macro{}", &f[i..]);
        }
        if head.ends_with("/repo") || head == "" || head.ends_with("ruint") {
            return f[i + 1..].to_string();
        }
        // third-party crate: crate dir name + path
        let krate = head.rsplit('/').next().unwrap_or("");
        return format!("{krate}{}", &f[i..]);
    }
    f.to_string()
}
