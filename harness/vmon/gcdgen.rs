//! Pairs (a, b) with a >= b built bottom-up from a chosen quotient sequence,
//! so that the Euclidean remainder sequence of the pair is known by
//! construction. Shared by C12 (gcd / Lehmer) and C10 (inv_mod).

use crate::{big, gen, rng::Rng};
use num_bigint::BigUint;
use num_traits::{One, Zero};

/// Quotient for step `i` under pattern `pat`.
fn quotient(r: &mut Rng, pat: usize, i: usize, huge_at: usize) -> BigUint {
    let small = |r: &mut Rng| BigUint::from(1 + r.below(3) as u64);
    match pat % 10 {
        0 => BigUint::one(),                                   // Fibonacci: all quotients 1
        1 => small(r),                                         // small quotients
        2 => {
            // one huge quotient somewhere
            if i == huge_at {
                big::big(&[gen::alpha_limb(r) | 1, gen::alpha_limb(r)])
            } else {
                small(r)
            }
        }
        3 => {
            // alternating 1 / huge
            if i % 2 == 0 {
                BigUint::one()
            } else {
                BigUint::from(gen::alpha_limb(r) | 1)
            }
        }
        4 => {
            // around the 2^32 limit of the single-word cofactors
            BigUint::from(match r.below(5) {
                0 => (1u64 << 32) - 1,
                1 => 1u64 << 32,
                2 => (1u64 << 32) + 1,
                3 => (1u64 << 31) + r.below(3) as u64,
                _ => (1u64 << 16) + r.below(3) as u64,
            })
        }
        5 => BigUint::from(gen::alpha_limb(r).max(1)),         // alphabet quotients
        6 => {
            // a run of ones followed by medium quotients
            if i < huge_at {
                BigUint::one()
            } else {
                BigUint::from(1 + (r.u64() >> r.range(32, 63)))
            }
        }
        7 => BigUint::from(2u8),
        8 => BigUint::from(1 + (r.u64() >> r.range(40, 63))),
        _ => BigUint::from(1 + r.below(1 << 12) as u64),
    }
}

/// Returns (a, b, g) with a >= b, gcd(a, b) = g, a < 2^bits; `g` is the chosen
/// common factor (power of two, large odd, or 1).
pub fn pair(r: &mut Rng, bits: usize, pat: usize) -> (BigUint, BigUint, BigUint) {
    if bits == 0 {
        return (BigUint::zero(), BigUint::zero(), BigUint::zero());
    }
    let g = match r.below(6) {
        0 | 1 => BigUint::one(),
        2 => big::p2(r.below(bits.max(2) / 2 + 1)),
        3 => {
            let k = r.range(1, (bits / 3).max(1));
            let mut v = big::big(&gen::with_bit_len(r, k, k));
            if !v.bit(0) {
                v += 1u8;
            }
            v
        }
        4 => BigUint::from(gen::alpha_limb(r).max(1)),
        _ => BigUint::from(3u8),
    };
    let lim = big::p2(bits);
    let g = if g >= lim { BigUint::one() } else { g };
    let (mut x, mut y) = (g.clone(), BigUint::zero());
    let huge_at = r.below(12);
    let mut i = 0;
    loop {
        let q = quotient(r, pat, i, huge_at);
        let nx = &q * &x + &y;
        if nx >= lim {
            break;
        }
        y = x;
        x = nx;
        i += 1;
        if i > 4 * bits + 8 {
            break;
        }
    }
    (x, y, g)
}

/// Leading words (a0, a1) with a0 >= 2^63 >= ... whose Euclidean remainder sequence passes exactly through
/// `target` (followed by a random smaller remainder), built backwards from there with small quotients. The
/// single-word Lehmer loops compare their remainders with fixed limits (2^32); this puts a remainder right
/// on such a limit at a random depth and parity.
pub fn words_through(r: &mut Rng, target: u64) -> (u64, u64) {
    let target = target.max(1);
    let (mut x, mut y) = (u128::from(target), u128::from(if target > 1 { r.u64() % target } else { 0 }));
    while x < 1 << 62 {
        let q = match r.below(8) {
            0 => 1 + r.below(1 << 10) as u128,
            1 | 2 => 2 + r.below(3) as u128,
            _ => 1,
        };
        let nx = q * x + y;
        if nx >= 1 << 62 {
            break;
        }
        y = x;
        x = nx;
    }
    // last step: the smallest quotient that sets the top bit (x < 2^62, so the result stays below 2^64)
    let q = ((1u128 << 63) - y).div_ceil(x).max(1);
    let a0 = q * x + y;
    assert!(a0 >= 1 << 63 && a0 < 1 << 64 && x <= a0, "harness: words_through construction");
    (a0 as u64, x as u64)
}
