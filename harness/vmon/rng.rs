//! Small deterministic PRNG (xoshiro256** seeded by splitmix64). No external
//! crate so that Miri, ASan and native lanes replay identical streams.

#[derive(Clone, Debug)]
pub struct Rng {
    s: [u64; 4],
}

pub fn splitmix(x: &mut u64) -> u64 {
    *x = x.wrapping_add(0x9e37_79b9_7f4a_7c15);
    let mut z = *x;
    z = (z ^ (z >> 30)).wrapping_mul(0xbf58_476d_1ce4_e5b9);
    z = (z ^ (z >> 27)).wrapping_mul(0x94d0_49bb_1331_11eb);
    z ^ (z >> 31)
}

impl Rng {
    pub fn new(seed: u64, stream: u64) -> Self {
        let mut x = seed ^ stream.wrapping_mul(0xd134_2543_de82_ef95) ^ 0x5851_f42d_4c95_7f2d;
        let s = [
            splitmix(&mut x),
            splitmix(&mut x),
            splitmix(&mut x),
            splitmix(&mut x),
        ];
        Self { s }
    }

    #[inline]
    pub fn u64(&mut self) -> u64 {
        let r = self.s[1].wrapping_mul(5).rotate_left(7).wrapping_mul(9);
        let t = self.s[1] << 17;
        self.s[2] ^= self.s[0];
        self.s[3] ^= self.s[1];
        self.s[1] ^= self.s[2];
        self.s[0] ^= self.s[3];
        self.s[2] ^= t;
        self.s[3] = self.s[3].rotate_left(45);
        r
    }

    #[inline]
    pub fn u128(&mut self) -> u128 {
        (u128::from(self.u64()) << 64) | u128::from(self.u64())
    }

    /// Uniform in `0..n` (n > 0). Slight modulo bias is irrelevant here.
    #[inline]
    pub fn below(&mut self, n: usize) -> usize {
        debug_assert!(n > 0);
        (self.u64() % (n as u64)) as usize
    }

    /// Uniform in `lo..=hi`.
    #[inline]
    pub fn range(&mut self, lo: usize, hi: usize) -> usize {
        lo + self.below(hi - lo + 1)
    }

    #[inline]
    pub fn bool(&mut self) -> bool {
        self.u64() & 1 == 1
    }

    /// True with probability `num/den`.
    #[inline]
    pub fn chance(&mut self, num: usize, den: usize) -> bool {
        self.below(den) < num
    }

    #[inline]
    pub fn pick<'a, T>(&mut self, xs: &'a [T]) -> &'a T {
        &xs[self.below(xs.len())]
    }

    pub fn bytes(&mut self, n: usize) -> Vec<u8> {
        (0..n).map(|_| self.u64() as u8).collect()
    }
}
