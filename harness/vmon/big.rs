//! BigUint oracle helpers. Values are always built from raw limbs, never
//! through ruint's own num-bigint glue.

use num_bigint::BigUint;
use num_traits::{One, Zero};

pub fn big(limbs: &[u64]) -> BigUint {
    let mut bytes = Vec::with_capacity(limbs.len() * 8);
    for l in limbs {
        bytes.extend_from_slice(&l.to_le_bytes());
    }
    BigUint::from_bytes_le(&bytes)
}

pub fn big128(x: u128) -> BigUint {
    BigUint::from(x)
}

/// 2^k
pub fn p2(k: usize) -> BigUint {
    BigUint::one() << k
}

/// Little-endian limbs of `v`, exactly `n` limbs. Panics if it does not fit.
pub fn limbs(v: &BigUint, n: usize) -> Vec<u64> {
    let mut d = v.to_u64_digits();
    assert!(d.len() <= n, "oracle value does not fit {n} limbs");
    d.resize(n, 0);
    d
}

/// `v mod 2^bits` as `nlimbs(bits)` limbs.
pub fn wrap(v: &BigUint, bits: usize) -> Vec<u64> {
    let m = v % p2(bits);
    limbs(&m, (bits + 63) / 64)
}

pub fn fits(v: &BigUint, bits: usize) -> bool {
    v.bits() as usize <= bits
}

pub fn hex(v: &[u64]) -> String {
    if v.is_empty() {
        return "0x".into();
    }
    let mut s = String::from("0x");
    for l in v.iter().rev() {
        s.push_str(&format!("{l:016x}"));
    }
    s
}

pub fn bhex(v: &BigUint) -> String {
    format!("0x{v:x}")
}

pub fn is_zero(v: &BigUint) -> bool {
    v.is_zero()
}

pub fn gcd(a: &BigUint, b: &BigUint) -> BigUint {
    let (mut a, mut b) = (a.clone(), b.clone());
    while !b.is_zero() {
        let r = &a % &b;
        a = b;
        b = r;
    }
    a
}
