#!/bin/sh
# Offline setup: build every workload binary of the quick tier so that the
# checks start warm. Everything is rebuilt by ./check anyway if /repo changed.
set -e
cd "$(dirname "$0")"
export CARGO_NET_OFFLINE=true
mkdir -p evidence replays build
cp -n /repo/Cargo.lock harness/Cargo.lock 2>/dev/null || true
./check build quick
